package sim

import (
	"context"
	"crypto/x509"
	"encoding/asn1"
	"encoding/base64"
	"encoding/json"
	"errors"
	"fmt"
	"net/http"
	"strings"
	"time"

	"github.com/fxamacker/cbor/v2"
	"github.com/notaryproject/notation-core-go/revocation"
	"github.com/notaryproject/notation-core-go/revocation/purpose"
	"github.com/notaryproject/notation-core-go/revocation/result"
	"github.com/notaryproject/notation-core-go/signature"
	"github.com/notaryproject/notation-core-go/signature/cose"
	"github.com/notaryproject/notation-core-go/signature/jws"
	"github.com/notaryproject/tspclient-go"
)

// ---------- C15: timestamped signing against an in-process RFC 3161 authority ----------

// TSA token behaviours.
const (
	TBValid = iota
	TBGrantedWithMods
	TBRejection
	TBWaiting
	TBRevocationWarning
	TBRevocationNotification
	TBNoToken
	TBWrongDigest
	TBWrongAlg
	TBWrongNonce
	TBNoNonce
	TBNoCerts
	TBVersion2
	TBContentTypeData
	TBCorruptSig
	TBBadMsgDigest
	TBNoSignCertV2
	TBBadSignCertV2
	TBSignedByOtherKey
	TBGarbage
	TBRejectBadAlgThenGrant // rejects with failInfo badAlg; would grant a second request (which a conforming client never sends)
	nTSABehaviours
)

var tsaBehaviourNames = []string{"valid_granted", "valid_granted_with_mods", "status_rejection", "status_waiting", "status_revocation_warning", "status_revocation_notification",
	"granted_without_token", "wrong_imprint_digest", "wrong_imprint_algorithm", "wrong_nonce", "nonce_omitted", "certificates_omitted", "tstinfo_version_2",
	"content_type_not_tstinfo", "corrupted_signature", "message_digest_mismatch", "signing_certificate_v2_missing", "signing_certificate_v2_mismatch", "signed_by_other_key", "garbage", "rejection_badalg_then_grants_retry"}

// Revocation gate modes.
const (
	RevNone = iota
	RevStub
	RevReal
)

type c15Scenario struct {
	Format      int // 0 jws, 1 cose
	KeyKind     string
	Remote      bool
	Scheme      int // 0 notary.x509, 1 signingAuthority
	NoTimestamp bool
	Behaviour   int
	Fault       Fault
	Latency     time.Duration
	Timeout     time.Duration
	Cancel      int
	CancelMs    int
	RevMode     int
	StubVec     []int // result.Result values; -1 = nil entry
	StubErr     bool
	StubLenOff  int
	Rev         *RevScenario // the TSA chain world (purpose timestamping) with its sources
	WithExpiry  bool
	Agent       bool
	GenSkew     time.Duration // the authority's clock is off by this much (genTime = now + GenSkew)
	RootsNil    bool          // the caller names no TSA roots at all (SignRequest.TSARootCAs == nil)
	PriorSign   bool          // the same envelope object has already signed once, with a valid timestamp
	StubLatency time.Duration // the stub revocation validator takes this long (fake time)
	// a second, honest timestamped signing (own envelope object, own signer,
	// own all-OK validator, same authority) overlaps the measured one
	Companion    bool
	CompOffsetMs int           // >= 0: the companion starts first and the measured signing this much later; < 0: the other way round
	CompRevLat   time.Duration // the companion's validator takes this long
	KeySpecLat   time.Duration // every KeySpec() call of the measured signing's remote signer takes this long
	StubPanic    int           // the stub validator panics: 1 with a string, 2 with a struct value, 3 with an error value
}

func profC15Rev() *RevProfile {
	p := defaultRevProfile("C15")
	p.LenW = []int{8, 55, 37, 0, 0} // also a self-signed authority certificate that is its own root
	p.OCSPCountW = []int{30, 55, 15, 0}
	p.CRLCountW = []int{50, 40, 10, 0}
	p.EntryW = []int{100, 0, 0}
	p.FetcherW = []int{70, 0, 30}
	p.ConfigW = []int{40, 20, 20, 20}
	p.PSrcFault = 40
	p.TimestampPct = 100
	p.STPct = 0
	p.LatMax = 800
	return p
}

func genC15(t *Tape) *c15Scenario {
	sc := &c15Scenario{}
	sc.Format = t.Choose(2)
	sc.KeyKind = signKeyKinds[t.Weighted(40, 15, 10, 20, 10, 5)]
	sc.Remote = t.Bool(35)
	sc.Scheme = t.Weighted(85, 15)
	sc.NoTimestamp = t.Bool(8)
	sc.Behaviour = TBValid
	if t.Bool(45) {
		sc.Behaviour = 1 + t.Choose(nTSABehaviours-1)
	}
	if t.Bool(15) {
		k := []int{FConnErr, FStall, FStatus, FEmpty, FTruncate, FBodyErr, FBodyStall, FGarbage, FWrongCT, FOversize, FRedirect, FEndless}[t.Choose(12)]
		sc.Fault = Fault{Kind: k}
		switch k {
		case FStatus:
			sc.Fault.Param = []int{404, 500, 503, 204, 301}[t.Choose(5)]
		case FTruncate:
			sc.Fault.Param = []int{500, 0, 999}[t.Choose(3)]
		case FBodyStall:
			sc.Fault.Param = []int{100, 10000}[t.Choose(2)]
		case FOversize:
			sc.Fault.Param = t.Choose(4096)
		}
	}
	sc.Latency = time.Duration(1+t.Choose(3000)) * time.Millisecond
	sc.Timeout = []time.Duration{5 * time.Second, 0, time.Second}[t.Weighted(60, 20, 20)]
	if t.Bool(8) {
		sc.Cancel = 1 + t.Choose(2)
		sc.CancelMs = t.Choose(3000)
	}
	sc.WithExpiry = t.Bool(30)
	sc.Agent = t.Bool(30)
	sc.GenSkew = []time.Duration{0, -2 * time.Hour, -30 * 24 * time.Hour, 2 * time.Hour, 48 * time.Hour}[t.Weighted(60, 15, 10, 8, 7)]
	sc.PriorSign = t.Bool(15)
	sc.StubLatency = []time.Duration{0, 50 * time.Millisecond, 400 * time.Millisecond}[t.Weighted(50, 25, 25)]
	// the TSA chain and its revocation sources
	rs := &RevScenario{Prof: profC15Rev()}
	rs.Config = t.Weighted(rs.Prof.ConfigW...)
	rs.netMask = uint32(t.Choose(1 << 15))
	rs.byzMask = uint32(t.Choose(1 << 8))
	if rs.Config == 0 || rs.Config == 2 {
		rs.netMask = 0
	}
	rs.Fetcher = t.Weighted(rs.Prof.FetcherW...)
	rs.OCSPTimeout, rs.CRLTimeout = 2*time.Second, 5*time.Second
	sc.RevMode = t.Weighted(35, 35, 30)
	if sc.RevMode != RevReal {
		// no sources needed: keep the chain plain
		rs.Prof.OCSPCountW, rs.Prof.CRLCountW = []int{100, 0, 0, 0}, []int{100, 0, 0, 0}
	}
	w := rs.Prof.genWorld(t, rs, 0)
	w.Purpose, w.Entry, w.ChainDefect, w.HasST = 1, EValidateContext, ChainOK, false
	if t.Bool(35) {
		w.TSADefect = 1 + t.Choose(nTSADefects-1)
		if w.TSADefect == TDPathLen && len(w.Certs) < 3 {
			w.TSADefect = TDCANoCertSign
		}
		if len(w.Certs) == 1 && (w.TSADefect == TDCANoCertSign || w.TSADefect == TDCANoKU || w.TSADefect == TDCAEKUExcludes) {
			// a self-signed authority certificate has no separate CA to be defective
			w.TSADefect = TDLeafKUExtra
		}
	}
	// invalidity dates of the TSA chain's revocation entries lie in the future
	// of the signing time: the TSA check must not be made "as of" that time
	w.InvBase = Epoch.Add(2 * time.Hour)
	// an authority certificate that carries its name in a critical
	// subjectAltName only
	w.Certs[0].EmptyName = t.Bool(10)
	if t.Bool(6) {
		sc.RootsNil = true
		// ... on a host whose system store happens to trust the authority's root
		w.UseSysRoot = len(w.Certs) > 1 && t.Bool(70)
	}
	rs.Worlds = []*World{w}
	sc.Rev = rs
	if sc.RevMode == RevStub {
		n := len(w.Certs)
		sc.StubErr = t.Bool(8)
		if t.Bool(7) {
			sc.StubPanic = 1 + t.Choose(3)
		}
		sc.StubLenOff = []int{0, -1, 1, -n}[t.Weighted(85, 5, 5, 5)]
		allGood := t.Bool(45)
		for i := 0; i < n+sc.StubLenOff; i++ {
			v := []int{int(result.ResultOK), int(result.ResultNonRevokable), int(result.ResultUnknown), int(result.ResultRevoked)}[t.Weighted(40, 20, 20, 20)]
			if allGood {
				v = []int{int(result.ResultOK), int(result.ResultNonRevokable)}[t.Choose(2)]
			}
			sc.StubVec = append(sc.StubVec, v)
		}
	}
	if t.Bool(14) {
		sc.Companion = true
		sc.CompOffsetMs = []int{0, 1, 20, 150, 900, 2500}[t.Choose(6)] + t.Choose(40)
		if t.Bool(50) {
			sc.CompOffsetMs = -sc.CompOffsetMs
		}
		sc.CompRevLat = []time.Duration{0, 400 * time.Millisecond, 3 * time.Second}[t.Choose(3)]
		if sc.Remote {
			sc.KeySpecLat = []time.Duration{0, 40 * time.Millisecond, 300 * time.Millisecond}[t.Weighted(20, 40, 40)]
			if sc.KeySpecLat > 0 && t.Bool(70) {
				// the companion runs from start to end inside the k-th KeySpec()
				// call of the measured signing's remote signer
				l := int(sc.KeySpecLat / time.Millisecond)
				sc.CompOffsetMs = -(l*t.Choose(6) + l/2)
			}
		}
	}
	return sc
}

// stubValidator returns a planned result vector.
type stubValidator struct {
	vec   []int
	panik int
	err   bool
	lat   time.Duration
	calls int
	chain []*x509.Certificate
}

func (s *stubValidator) ValidateContext(ctx context.Context, o revocation.ValidateContextOptions) ([]*result.CertRevocationResult, error) {
	s.calls++
	s.chain = o.CertChain
	if s.lat > 0 {
		_ = sleepCtx(ctx, s.lat)
	}
	switch s.panik {
	case 1:
		panic("sim: revocation validator blew up")
	case 2:
		panic(panicTokenB{id: "sim-injected-panic/B"})
	case 3:
		panic(&panicTokenErr{id: "sim-injected-panic/error"})
	}
	if s.err {
		return nil, errors.New("sim: revocation validator failure")
	}
	var out []*result.CertRevocationResult
	for _, v := range s.vec {
		out = append(out, &result.CertRevocationResult{Result: result.Result(v), ServerResults: []*result.ServerResult{{Result: result.Result(v)}}})
	}
	return out, nil
}

// recValidator records the results the real validator returned.
type recValidator struct {
	inner   revocation.Validator
	calls   int
	results []*result.CertRevocationResult
	err     error
	chain   []*x509.Certificate
}

func (r *recValidator) ValidateContext(ctx context.Context, o revocation.ValidateContextOptions) ([]*result.CertRevocationResult, error) {
	r.calls++
	r.chain = o.CertChain
	r.results, r.err = r.inner.ValidateContext(ctx, o)
	return r.results, r.err
}

// TSAServed is recorded by the authority at the delivery instant.
type TSAServed struct {
	ReqOK     bool
	ReqHash   asn1.ObjectIdentifier
	ReqDigest []byte
	CertReq   bool
	HasNonce  bool
	Token     []byte
	Behaviour int
}

type c15Obs struct {
	CompOK            bool   // the companion signing succeeded
	CompErr           string // ... or why not
	Bytes             []byte
	Err               error
	Panicked          bool
	PanicVal          any
	X                 *Exchange
	XRetry            *Exchange
	PriorErr          string
	AfterErr          error // Content() of the object after the Sign under test
	AfterShowsRequest bool  // ... shows the payload of the request under test
	AfterHasToken     bool
	RevObs            *RevObs
	Stub              *stubValidator
	RecV              *recValidator
	Signer            *SimSigner
	Chain             *SignerChain
	TStart            time.Time
	TReturn           time.Time
	BubbleErr         string
	Harness           string
	Views             []*CertView
}

func mediaType(format int) string {
	if format == 0 {
		return jws.MediaTypeEnvelope
	}
	return cose.MediaTypeEnvelope
}

func execC15(sc *c15Scenario) (obs *c15Obs) {
	obs = &c15Obs{RevObs: &RevObs{}}
	defer func() {
		if r := recover(); r != nil {
			obs.BubbleErr = fmt.Sprint(r)
		}
	}()
	runBubble(func() { sc.exec(obs) })
	return obs
}

func testPayload(i int) []byte { return testPayloadKind(i, 0) }

// testPayloadKind adds top-level members that mean something to JWT libraries
// (registered claim names) but nothing to Notary: legal JSON, unusual payloads.
func testPayloadKind(i, kind int) []byte {
	extra := []string{"", `,"exp":946684700`, `,"nbf":4102444800`, `,"iat":4102444800`, `,"exp":"soon","aud":["x"]`, `,"annotations":{"io.sim":"v"},"exp":1}`}[kind%6]
	if kind%6 == 5 {
		return []byte(fmt.Sprintf(`{"targetArtifact":{"mediaType":"application/vnd.oci.image.manifest.v1+json","digest":"sha256:%064d","size":%d,"annotations":{"io.sim":"v"}},"exp":1}`, i, 100+i))
	}
	return []byte(fmt.Sprintf(`{"targetArtifact":{"mediaType":"application/vnd.oci.image.manifest.v1+json","digest":"sha256:%064d","size":%d}%s}`, i, 100+i, extra))
}

const payloadContentType = "application/vnd.cncf.notary.payload.v1+json"

func (sc *c15Scenario) exec(obs *c15Obs) {
	ka := newKeyAllocator()
	nt := NewNet()
	chain, err := NewSignerChain(ka, sc.KeyKind, "signer", Epoch.Add(-24*time.Hour), Epoch.Add(365*24*time.Hour))
	if err != nil {
		obs.Harness = err.Error()
		return
	}
	obs.Chain = chain
	inf := sc.Rev.setup(obs.RevObs, 0, nt, ka)
	if inf == nil {
		obs.Harness = "rev setup: " + obs.RevObs.HarnessErr
		return
	}
	w := sc.Rev.Worlds[0]
	// the authority
	tsaLeaf := w.Certs[0].C
	var embed []*x509.Certificate
	for _, cp := range w.Certs[:len(w.Certs)-1] {
		embed = append(embed, cp.C.X)
	}
	if len(w.Certs) == 1 {
		embed = []*x509.Certificate{tsaLeaf.X}
	}
	otherKey := ka.get("ec256")
	// the request context carries the caller id of the TSA chain's world (the
	// real revocation validator needs it to find its slots)
	tsaCaller := w.callerKeyOf(0)
	var xPrior *Exchange
	if sc.PriorSign {
		// an honest grant for the signature this object makes before the measured one
		xPrior = nt.Plan(tsaCaller, &Exchange{URL: "http://tsa.sim/ts", Kind: "tsa", Latency: 5 * time.Millisecond, ReadCap: 1 << 20,
			Serve: tsaServeSkew(TBValid, tsaLeaf, embed, otherKey, 0)})
	}
	x := nt.Plan(tsaCaller, &Exchange{URL: "http://tsa.sim/ts", Kind: "tsa", Latency: sc.Latency, Fault: sc.Fault, ReadCap: 1 << 20, Prior: xPrior != nil,
		Serve: tsaServeSkew(sc.Behaviour, tsaLeaf, embed, otherKey, sc.GenSkew)})
	obs.X = x
	if sc.Behaviour == TBRejectBadAlgThenGrant {
		// what a second request would get (a conforming client never sends it)
		obs.XRetry = nt.Plan(tsaCaller, &Exchange{URL: "http://tsa.sim/ts", Kind: "tsa", Latency: 5 * time.Millisecond, ReadCap: 1 << 20,
			Serve: tsaServeSkew(TBValid, tsaLeaf, embed, otherKey, 0)})
	}
	tsaClient := &http.Client{Transport: nt}
	if sc.Timeout > 0 {
		tsaClient.Timeout = sc.Timeout + 500*time.Microsecond
	}
	timestamper, err := tspclient.NewHTTPTimestamper(tsaClient, "http://tsa.sim/ts")
	if err != nil {
		obs.Harness = err.Error()
		return
	}
	roots := x509.NewCertPool()
	if sc.RootsNil {
		roots = nil
	} else if w.TSADefect == TDUntrustedRoot {
		other, err := Issue(&CertSpec{CN: "other-tsa-root", Key: ka.get("ec256"), IsCA: true, KeyUsage: x509.KeyUsageCertSign, NotBefore: Epoch.Add(-time.Hour * 24 * 365), NotAfter: Epoch.Add(time.Hour * 24 * 3650), MaxPathLen: -1}, nil)
		if err != nil {
			obs.Harness = err.Error()
			return
		}
		roots.AddCert(other.X)
	} else {
		roots.AddCert(w.Certs[len(w.Certs)-1].C.X)
	}
	req := &signature.SignRequest{
		Payload:       signature.Payload{ContentType: payloadContentType, Content: testPayload(1)},
		SigningTime:   time.Now(),
		SigningScheme: signature.SigningSchemeX509,
		TSARootCAs:    roots,
	}
	if sc.Scheme == 1 {
		req.SigningScheme = signature.SigningSchemeX509SigningAuthority
	}
	if sc.WithExpiry {
		req.Expiry = time.Now().Add(48 * time.Hour)
	}
	if sc.Agent {
		req.SigningAgent = "sim/1.0"
	}
	if !sc.NoTimestamp {
		req.Timestamper = timestamper
	}
	if sc.Remote {
		obs.Signer = &SimSigner{Chain: chain}
		req.Signer = obs.Signer
	} else {
		ls, err := signature.NewLocalSigner(chain.Certs, chain.Leaf.Key.Priv)
		if err != nil {
			obs.Harness = "local signer: " + err.Error()
			return
		}
		req.Signer = ls
	}
	switch sc.RevMode {
	case RevStub:
		obs.Stub = &stubValidator{vec: sc.StubVec, err: sc.StubErr, lat: sc.StubLatency, panik: sc.StubPanic}
		req.TSARevocationValidator = obs.Stub
	case RevReal:
		obs.RecV = &recValidator{inner: inf.validators[purpose.Timestamping]}
		req.TSARevocationValidator = obs.RecV
	}
	ctx, cancel := context.WithCancel(WithCaller(context.Background(), w.callerKeyOf(0)))
	defer cancel()
	switch sc.Cancel {
	case 1:
		cancel()
	case 2:
		time.AfterFunc(time.Duration(sc.CancelMs)*time.Millisecond+cancelOffset, cancel)
	}
	env, err := signature.NewEnvelope(mediaType(sc.Format))
	if err != nil {
		obs.Harness = err.Error()
		return
	}
	if xPrior != nil {
		// the object's earlier life: one honest, timestamped signature
		prior := *req
		prior.SigningScheme = signature.SigningSchemeX509
		prior.Timestamper, prior.TSARootCAs, prior.TSARevocationValidator = timestamper, x509.NewCertPool(), nil
		prior.TSARootCAs.AddCert(w.Certs[len(w.Certs)-1].C.X)
		prior.Payload = signature.Payload{ContentType: payloadContentType, Content: testPayload(7)}
		func() {
			defer func() {
				if r := recover(); r != nil {
					obs.PriorErr = fmt.Sprint(r)
				}
			}()
			if _, err := env.Sign(prior.WithContext(WithCaller(context.Background(), tsaCaller))); err != nil {
				obs.PriorErr = err.Error()
			}
		}()
		nt.dropPendingExcept(x, obs.XRetry)
	}
	var compDone chan struct{}
	if sc.Companion {
		const compCaller = 900
		nt.Plan(compCaller, &Exchange{URL: "http://tsa.sim/ts", Kind: "tsa", Latency: 30 * time.Millisecond, ReadCap: 1 << 20,
			Serve: tsaServeSkew(TBValid, tsaLeaf, embed, otherKey, 0)})
		compChain, err := NewSignerChain(ka, "ec256", "companion", Epoch.Add(-24*time.Hour), Epoch.Add(365*24*time.Hour))
		if err != nil {
			obs.Harness = err.Error()
			return
		}
		cls, err := signature.NewLocalSigner(compChain.Certs, compChain.Leaf.Key.Priv)
		if err != nil {
			obs.Harness = "companion signer: " + err.Error()
			return
		}
		compEnv, err := signature.NewEnvelope(mediaType(sc.Format))
		if err != nil {
			obs.Harness = err.Error()
			return
		}
		compRoots := x509.NewCertPool()
		compRoots.AddCert(w.Certs[len(w.Certs)-1].C.X)
		var okVec []int
		for range w.Certs {
			okVec = append(okVec, int(result.ResultOK))
		}
		compReq := &signature.SignRequest{Payload: signature.Payload{ContentType: payloadContentType, Content: testPayload(9)}, SigningTime: time.Now(),
			SigningScheme: signature.SigningSchemeX509, Signer: cls, Timestamper: timestamper, TSARootCAs: compRoots,
			TSARevocationValidator: &stubValidator{vec: okVec, lat: sc.CompRevLat}}
		compDone = make(chan struct{})
		lead := time.Duration(0)
		if sc.CompOffsetMs < 0 {
			lead = time.Duration(-sc.CompOffsetMs)*time.Millisecond + 30*time.Microsecond
		}
		go func() {
			defer close(compDone)
			defer func() {
				if r := recover(); r != nil {
					obs.CompErr = fmt.Sprint("panic: ", r)
				}
			}()
			if lead > 0 {
				time.Sleep(lead)
			}
			b, err := compEnv.Sign(compReq.WithContext(WithCaller(context.Background(), compCaller)))
			if err != nil {
				obs.CompErr = err.Error()
			}
			obs.CompOK = err == nil && b != nil
		}()
		if sc.CompOffsetMs >= 0 {
			time.Sleep(time.Duration(sc.CompOffsetMs)*time.Millisecond + 30*time.Microsecond)
		}
		if obs.Signer != nil {
			obs.Signer.KeySpecLatency = sc.KeySpecLat
		}
	}
	obs.TStart = time.Now()
	func() {
		defer func() {
			if r := recover(); r != nil {
				obs.Panicked, obs.PanicVal = true, r
			}
		}()
		obs.Bytes, obs.Err = env.Sign(req.WithContext(ctx))
	}()
	obs.TReturn = time.Now()
	if compDone != nil {
		<-compDone
	}
	// what the object shows afterwards
	func() {
		defer func() {
			if r := recover(); r != nil {
				obs.AfterErr = fmt.Errorf("panic: %v", r)
			}
		}()
		c, err := env.Content()
		obs.AfterErr = err
		if err == nil && c != nil {
			obs.AfterShowsRequest = canonJSON(c.Payload.Content) == canonJSON(req.Payload.Content)
			obs.AfterHasToken = len(c.SignerInfo.UnsignedAttributes.TimestampSignature) > 0
		}
	}()
	obs.RevObs.Fetches = inf.rf.all()
	obs.RevObs.TEnd = obs.TReturn
	// views of the TSA chain's revocation sources (for the reference gate)
	if sc.RevMode == RevReal && obs.RecV.calls > 0 {
		co := &CallObs{World: w, Results: obs.RecV.results, Err: obs.RecV.err}
		obs.Views = sc.Rev.buildViews(obs.RevObs, co)
	}
}

// envelopeParts decodes the emitted envelope independently of the library:
// signature bytes and the embedded timestamp token (nil if absent).
func envelopeParts(format int, b []byte) (sig []byte, token []byte, err error) {
	if format == 0 {
		var e struct {
			Signature string `json:"signature"`
			Header    struct {
				TS string `json:"io.cncf.notary.timestampSignature"`
			} `json:"header"`
		}
		if err := json.Unmarshal(b, &e); err != nil {
			return nil, nil, err
		}
		sig, err = base64.RawURLEncoding.DecodeString(e.Signature)
		if err != nil {
			return nil, nil, err
		}
		if e.Header.TS != "" {
			token, err = base64.StdEncoding.DecodeString(e.Header.TS)
			if err != nil {
				return nil, nil, err
			}
		}
		return sig, token, nil
	}
	var tagged cbor.RawTag
	if err := cbor.Unmarshal(b, &tagged); err != nil {
		return nil, nil, err
	}
	if tagged.Number != 18 {
		return nil, nil, fmt.Errorf("not a COSE_Sign1_Tagged object (tag %d)", tagged.Number)
	}
	var arr []cbor.RawMessage
	if err := cbor.Unmarshal(tagged.Content, &arr); err != nil {
		return nil, nil, err
	}
	if len(arr) != 4 {
		return nil, nil, fmt.Errorf("COSE_Sign1 has %d elements", len(arr))
	}
	if err := cbor.Unmarshal(arr[3], &sig); err != nil {
		return nil, nil, err
	}
	var unprot map[any]any
	if err := cbor.Unmarshal(arr[1], &unprot); err != nil {
		return nil, nil, err
	}
	if v, ok := unprot["io.cncf.notary.timestampSignature"]; ok {
		tb, ok := v.([]byte)
		if !ok {
			return nil, nil, fmt.Errorf("timestamp header is %T", v)
		}
		token = tb
	}
	return sig, token, nil
}

func hashOIDName(o asn1.ObjectIdentifier) string {
	switch {
	case o.Equal(oidSHA256):
		return "SHA-256"
	case o.Equal(oidSHA384):
		return "SHA-384"
	case o.Equal(oidSHA512):
		return "SHA-512"
	}
	return o.String()
}

func evalC15(sc *c15Scenario, obs *c15Obs, rc *ruleCtx) {
	w := sc.Rev.Worlds[0]
	if sc.Companion {
		rc.st.Probes["c15_overlapping_honest_signing"]++
		if obs.CompOK {
			rc.st.Probes["c15_overlapping_honest_signing_succeeded"]++
		}
	}
	active := sc.Scheme == 0 && !sc.NoTimestamp
	desc := fmt.Sprintf("format=%s key=%s remote=%v tsa=%s fault=%s chain_defect=%s rev=%d", []string{"jws", "cose"}[sc.Format], sc.KeyKind, sc.Remote, tsaBehaviourNames[sc.Behaviour], sc.Fault, tsaDefectNames[w.TSADefect], sc.RevMode)
	if obs.Panicked {
		if sc.RevMode == RevStub && sc.StubPanic != 0 && obs.Stub.calls > 0 {
			// the caller's own validator blew up and the caller got its panic
			// back: no envelope, nothing to judge
			rc.st.Probes["c15_stub_validator_panic_reached_caller"]++
			return
		}
		rc.fail("C15.T3", "panic", "Sign panicked: "+fmt.Sprint(obs.PanicVal)+" ("+desc+")")
		return
	}
	if obs.XRetry != nil && obs.XRetry.Rec.Begun {
		rc.anteTrue("C15.T3")
		rc.fail("C15.T3", "second_request_after_rejection", "the authority rejected the request and the library sent it a second, different request instead of failing ("+desc+")")
	}
	if obs.Err != nil && sc.Scheme == 0 && !sc.NoTimestamp {
		// a timestamped signing that failed leaves no signature of the request
		// behind in the object either (with or without a token): an envelope
		// needs the verified token whichever way it is obtained
		rc.anteTrue("C15.T1")
		if obs.AfterErr == nil && obs.AfterShowsRequest {
			rc.fail("C15.T1", fmt.Sprintf("failed_timestamped_sign_observable_in_object/token=%v", obs.AfterHasToken), fmt.Sprintf("Sign failed (%v) but the object now shows the request's content (timestamp token present: %v) (%s)", errKind(obs.Err), obs.AfterHasToken, desc))
		}
	}
	ok := obs.Err == nil
	if ok && len(obs.Bytes) == 0 {
		rc.fail("C15.T1", "nil_error_without_bytes", "Sign returned neither an error nor an envelope ("+desc+")")
		return
	}
	if !active {
		// ----- T4 -----
		rc.anteTrue("C15.T4")
		if obs.X.Rec.Begun {
			rc.fail("C15.T4", fmt.Sprintf("authority_contacted/scheme=%d/notimestamper=%v", sc.Scheme, sc.NoTimestamp), "the authority was contacted although the scheme is signing-authority or no timestamper was named ("+desc+")")
		}
		if obs.Stub != nil && obs.Stub.calls > 0 || obs.RecV != nil && obs.RecV.calls > 0 {
			rc.fail("C15.T4", "tsa_revocation_checked_without_timestamping", "the TSA revocation validator was called although no timestamping takes place ("+desc+")")
		}
		if ok {
			_, tok, err := envelopeParts(sc.Format, obs.Bytes)
			if err != nil {
				rc.fail("C15.T4", "envelope_undecodable", "emitted envelope cannot be decoded: "+err.Error())
			} else if len(tok) != 0 {
				rc.fail("C15.T4", "token_embedded_without_timestamping", "a timestamp token is embedded although no timestamping takes place ("+desc+")")
			}
		} else {
			rc.st.Probes["c15_untimestamped_sign_failed"]++
		}
		return
	}
	// ----- is the token the authority served valid by construction? -----
	sv, _ := obs.X.Rec.Served.(*TSAServed)
	delivered, _ := deliveredBody(obs.X)
	tokenValid := delivered && sv != nil && sv.ReqOK && (sc.Behaviour == TBValid || sc.Behaviour == TBGrantedWithMods) && sc.Fault.Kind != FWrongCT
	if sc.Behaviour == TBNoNonce && sv != nil && sv.ReqOK && !sv.HasNonce {
		// the request carried no nonce, so omitting it is not a defect
		tokenValid = delivered && sc.Fault.Kind != FWrongCT
	}
	chainOK := w.TSADefect == TDNone
	rootsNamed := !sc.RootsNil
	// ----- revocation gate by construction -----
	gate := "pass" // "pass" | "fail" | "vacuous"
	switch sc.RevMode {
	case RevStub:
		n := len(w.Certs)
		if sc.StubErr || sc.StubPanic != 0 || len(sc.StubVec) != n {
			gate = "fail"
		}
		for _, v := range sc.StubVec {
			if v != int(result.ResultOK) && v != int(result.ResultNonRevokable) {
				gate = "fail"
			}
		}
	case RevReal:
		if tokenValid && chainOK {
			if obs.Views == nil {
				gate = "not_called"
			} else {
				for _, v := range obs.Views {
					outs, vac := RefCert(v)
					if vac {
						gate = "vacuous"
						break
					}
					good, bad := false, false
					for _, o := range outs {
						if o.Result == result.ResultOK || o.Result == result.ResultNonRevokable {
							good = true
						} else {
							bad = true
						}
					}
					switch {
					case bad && good:
						if gate == "pass" {
							gate = "vacuous"
						}
					case bad:
						gate = "fail"
					}
				}
			}
		}
	}
	if ok {
		// ----- T1 -----
		rc.anteTrue("C15.T1")
		rc.st.Probes["c15_timestamped_sign_succeeded"]++
		if !tokenValid {
			rc.fail("C15.T1", "tsa="+tsaBehaviourNames[sc.Behaviour]+"/fault="+sc.Fault.String(), "Sign succeeded although the authority did not deliver a valid granted token ("+desc+")")
		}
		if !chainOK {
			rc.fail("C15.T1", "chain_defect="+tsaDefectNames[w.TSADefect], "Sign succeeded although the TSA chain is defective: "+tsaDefectNames[w.TSADefect]+" ("+desc+")")
		}
		if !rootsNamed {
			rc.fail("C15.T1", fmt.Sprintf("no_caller_roots/host_trusted=%v", w.UseSysRoot), fmt.Sprintf("Sign succeeded although the caller named no trusted TSA roots (host store trusts the authority: %v) (%s)", w.UseSysRoot, desc))
		}
		switch gate {
		case "fail":
			rc.fail("C15.T1", fmt.Sprintf("revocation_gate/mode=%d/vec=%v/err=%v/panic=%d", sc.RevMode, sc.StubVec, sc.StubErr, sc.StubPanic), fmt.Sprintf("Sign succeeded although the TSA chain's revocation status does not allow it (stub vector %v err=%v panics=%d; %s) (%s)", sc.StubVec, sc.StubErr, sc.StubPanic, viewsDesc(obs.Views), desc))
		case "not_called":
			rc.fail("C15.T1", "revocation_validator_not_called", "Sign succeeded but the supplied TSA revocation validator was never called ("+desc+")")
		}
		if sc.RevMode == RevStub && obs.Stub.calls == 0 {
			rc.fail("C15.T1", "revocation_validator_not_called", "Sign succeeded but the supplied TSA revocation validator was never called ("+desc+")")
		}
		// ----- T2 -----
		rc.anteTrue("C15.T2")
		sig, tok, err := envelopeParts(sc.Format, obs.Bytes)
		switch {
		case err != nil:
			rc.fail("C15.T2", "envelope_undecodable", "emitted envelope cannot be decoded: "+err.Error())
		case sv == nil || len(sv.Token) == 0:
			// covered by T1
		case string(tok) != string(sv.Token):
			rc.fail("C15.T2", "token_not_the_one_served", fmt.Sprintf("the envelope carries %d token bytes that differ from the %d bytes the authority served (%s)", len(tok), len(sv.Token), desc))
		default:
			h := hashForKeyKind(sc.KeyKind)
			hh := h.New()
			hh.Write(sig)
			want := hh.Sum(nil)
			if !sv.ReqHash.Equal(hashOIDFor(h)) || string(sv.ReqDigest) != string(want) {
				rc.fail("C15.T2", "imprint_mismatch/"+sc.KeyKind, fmt.Sprintf("the token's message imprint (%s, %x...) is not %s of this envelope's signature bytes (%s)", hashOIDName(sv.ReqHash), sv.ReqDigest[:4], hashOIDName(hashOIDFor(h)), desc))
			}
		}
		return
	}
	// ----- T3: failure -----
	rc.anteTrue("C15.T3")
	var te *signature.TimestampError
	if !errors.As(obs.Err, &te) {
		rc.fail("C15.T3", fmt.Sprintf("error_type/%T", obs.Err), fmt.Sprintf("timestamping failed but the error is %T (%v), not a timestamp error (%s)", obs.Err, obs.Err, desc))
	}
	if obs.Bytes != nil {
		rc.fail("C15.T3", "bytes_with_error", "Sign returned an error together with envelope bytes ("+desc+")")
	}
	if tokenValid && chainOK && rootsNamed && gate == "pass" && sc.Cancel == 0 {
		// completeness is not in the statement: measured, not asserted
		rc.st.Probes["c15_valid_tsa_but_sign_failed"]++
	}
}

func viewsDesc(vs []*CertView) string {
	var s []string
	for _, v := range vs {
		s = append(s, fmt.Sprintf("cert%d: OCSP %s CRL %s", v.CP.Pos, viewDesc(v.OCSP), viewDesc(v.CRL)))
	}
	return strings.Join(s, "; ")
}

func describeC15(sc *c15Scenario) any {
	w := sc.Rev.Worlds[0]
	return map[string]any{"format": []string{"jws", "cose"}[sc.Format], "key": sc.KeyKind, "remote_signer": sc.Remote, "scheme": []string{"notary.x509", "notary.x509.signingAuthority"}[sc.Scheme],
		"timestamper": !sc.NoTimestamp, "tsa_behaviour": tsaBehaviourNames[sc.Behaviour], "tsa_http_fault": sc.Fault.String(), "tsa_latency_ms": sc.Latency.Milliseconds(), "tsa_clock_skew_s": sc.GenSkew.Seconds(),
		"tsa_timeout_ms": sc.Timeout.Milliseconds(), "cancel": sc.Cancel, "cancel_ms": sc.CancelMs, "tsa_chain_len": len(w.Certs), "tsa_chain_defect": tsaDefectNames[w.TSADefect], "object_signed_before_with_timestamp": sc.PriorSign, "stub_validator_latency_ms": sc.StubLatency.Milliseconds(), "caller_roots_nil": sc.RootsNil, "host_store_trusts_tsa_root": w.UseSysRoot,
		"revocation_mode": []string{"none", "stub_vector", "real_validator"}[sc.RevMode], "stub_vector": sc.StubVec, "stub_error": sc.StubErr, "overlapping_honest_signing": sc.Companion, "companion_offset_ms": sc.CompOffsetMs, "companion_validator_latency_ms": sc.CompRevLat.Milliseconds(), "remote_signer_keyspec_latency_ms": sc.KeySpecLat.Milliseconds(), "stub_panics_with": []string{"-", "string", "struct value", "error value"}[sc.StubPanic], "tsa_chain_sources": describeRev(sc.Rev)}
}

func runC15(t *Tape, st *Stats, tier string) *RunResult {
	sc := genC15(t)
	rr := &RunResult{}
	obs := execC15(sc)
	st.Bubbles++
	if obs.Harness != "" {
		rr.Harness = obs.Harness
		return rr
	}
	rc := &ruleCtx{props: map[string]bool{"C15": true}, st: st, ante: map[string]bool{}}
	if obs.BubbleErr != "" {
		rc.fail("C15.T3", "bubble", "bubble ended abnormally: "+firstLine(obs.BubbleErr))
	} else {
		evalC15(sc, obs, rc)
	}
	st.SimTimeMs += obs.TReturn.Sub(Epoch).Milliseconds()
	w := sc.Rev.Worlds[0]
	if sc.PriorSign {
		if obs.PriorErr == "" {
			st.Probes["c15_object_signed_before"]++
			if sc.Scheme != 0 || sc.NoTimestamp {
				st.Probes["c15_object_signed_before_then_untimestamped_sign"]++
			}
		} else {
			st.Probes["c15_prior_sign_failed"]++
		}
	}
	if w.Certs[0].EmptyName && len(w.Certs) > 1 {
		st.Probes["c15_tsa_leaf_with_empty_subject"]++
	}
	st.Behav["tsa_"+tsaBehaviourNames[sc.Behaviour]]++
	st.Behav["tsa_chain_"+tsaDefectNames[w.TSADefect]]++
	st.Behav[fmt.Sprintf("rev_mode_%d", sc.RevMode)]++
	st.Behav["key_"+sc.KeyKind]++
	if sc.Fault.Kind != 0 && obs.X.Rec.Begun {
		st.Faults["tsa_"+faultNames[sc.Fault.Kind]]++
	}
	if sc.Cancel != 0 {
		st.Faults["cancel"]++
	}
	countRevStats(sc.Rev, obs.RevObs, st)
	e := "nil"
	if obs.Err != nil {
		e = fmt.Sprintf("%T", obs.Err)
	}
	rr.Trace = append(revTrace(sc.Rev, obs.RevObs), fmt.Sprintf("t=%s sign.return err=%s bytes=%v", rel(obs.TReturn), e, obs.Bytes != nil))
	rr.Scenario = describeC15(sc)
	rr.Nontrivial = (sc.Behaviour > TBGrantedWithMods || sc.Fault.Kind != 0 || w.TSADefect != 0 || sc.RevMode != RevNone) && len(rc.ante) > 0
	rr.ShapeKey = hashHex([]byte(fmt.Sprintf("%d/%s/%v/%d/%v/%d/%d/%d/%d/%v/%v/%d/%s", sc.Format, sc.KeyKind, sc.Remote, sc.Scheme, sc.NoTimestamp, sc.Behaviour, sc.Fault.Kind, w.TSADefect, sc.RevMode, sc.StubVec, sc.StubErr, sc.Cancel, e)))
	rr.Violations = dedupeViolations(rc.out, "C15")
	rr.TraceHash = traceHash(rr.Trace)
	return rr
}

func init() { registerProp(&PropDef{ID: "C15", Run: runC15}) }

// tsaServe returns the content generator of the simulated authority for one
// behaviour of the C15 alphabet.
func tsaServe(behaviour int, tsaLeaf *Cert, embed []*x509.Certificate, otherKey *Key) func(x *Exchange, req *http.Request, body []byte, now time.Time) ([]byte, string) {
	return tsaServeSkew(behaviour, tsaLeaf, embed, otherKey, 0)
}

func tsaServeSkew(behaviour int, tsaLeaf *Cert, embed []*x509.Certificate, otherKey *Key, skew time.Duration) func(x *Exchange, req *http.Request, body []byte, now time.Time) ([]byte, string) {
	return func(x *Exchange, req *http.Request, body []byte, now time.Time) ([]byte, string) {
		now = now.Add(skew)
		sv := &TSAServed{Behaviour: behaviour}
		x.Rec.Served = sv
		var tr tsRequest
		if rest, err := asn1.Unmarshal(body, &tr); err != nil || len(rest) != 0 {
			return []byte("bad request"), "text/plain"
		}
		sv.ReqOK, sv.ReqHash, sv.ReqDigest, sv.CertReq, sv.HasNonce = true, tr.MessageImprint.HashAlgorithm.Algorithm, tr.MessageImprint.HashedMessage, tr.CertReq, tr.Nonce != nil
		if behaviour == TBGarbage {
			g := make([]byte, 300)
			fillPattern(g, 99)
			return g, tspclient.MediaTypeTimestampReply
		}
		ts := &TSATokenSpec{Req: &tr, GenTime: now, Leaf: tsaLeaf, Embed: embed}
		switch behaviour {
		case TBGrantedWithMods:
			ts.Status = 1
		case TBRejectBadAlgThenGrant:
			if x.Attempt == 0 || (x.Attempt == 1 && x.Prior) {
				ts.Status, ts.FailBadAlg = 2, true
			}
		case TBRejection, TBWaiting, TBRevocationWarning, TBRevocationNotification:
			ts.Status = 2 + (behaviour - TBRejection)
		case TBNoToken:
			ts.NoToken = true
		case TBWrongDigest:
			ts.WrongDigest = true
		case TBWrongAlg:
			ts.WrongAlg = true
		case TBWrongNonce:
			ts.NonceMode = 1
		case TBNoNonce:
			ts.NonceMode = 2
		case TBNoCerts:
			ts.Embed = nil
		case TBVersion2:
			ts.TSTVersion = 2
		case TBContentTypeData:
			ts.ContentTypeData = true
		case TBCorruptSig:
			ts.CorruptSig = true
		case TBBadMsgDigest:
			ts.BadMsgDigest = true
		case TBNoSignCertV2:
			ts.NoSignCertV2 = true
		case TBBadSignCertV2:
			ts.BadSignCertV2 = true
		case TBSignedByOtherKey:
			ts.SignerKey = otherKey
		}
		resp, tok := BuildTSAResponse(ts)
		sv.Token = tok
		return resp, tspclient.MediaTypeTimestampReply
	}
}
