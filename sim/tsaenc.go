package sim

import (
	"crypto"
	"crypto/sha256"
	"crypto/x509"
	"crypto/x509/pkix"
	"encoding/asn1"
	"math/big"
	"time"
)

// In-process RFC 3161 authority: own CMS SignedData / TSTInfo encoder built on
// encoding/asn1 only (DESIGN Appendix F).

var (
	oidSignedData      = asn1.ObjectIdentifier{1, 2, 840, 113549, 1, 7, 2}
	oidData            = asn1.ObjectIdentifier{1, 2, 840, 113549, 1, 7, 1}
	oidTSTInfo         = asn1.ObjectIdentifier{1, 2, 840, 113549, 1, 9, 16, 1, 4}
	oidAttrContentType = asn1.ObjectIdentifier{1, 2, 840, 113549, 1, 9, 3}
	oidAttrMsgDigest   = asn1.ObjectIdentifier{1, 2, 840, 113549, 1, 9, 4}
	oidAttrSignCertV2  = asn1.ObjectIdentifier{1, 2, 840, 113549, 1, 9, 16, 2, 47}
	oidSHA256          = asn1.ObjectIdentifier{2, 16, 840, 1, 101, 3, 4, 2, 1}
	oidSHA384          = asn1.ObjectIdentifier{2, 16, 840, 1, 101, 3, 4, 2, 2}
	oidSHA512          = asn1.ObjectIdentifier{2, 16, 840, 1, 101, 3, 4, 2, 3}
	oidTSAPolicy       = asn1.ObjectIdentifier{1, 3, 6, 1, 4, 1, 99999, 2, 1}
)

type tsMessageImprint struct {
	HashAlgorithm pkix.AlgorithmIdentifier
	HashedMessage []byte
}

type tsRequest struct {
	Version        int
	MessageImprint tsMessageImprint
	ReqPolicy      asn1.ObjectIdentifier `asn1:"optional"`
	Nonce          *big.Int              `asn1:"optional"`
	CertReq        bool                  `asn1:"optional,default:false"`
	Extensions     []pkix.Extension      `asn1:"optional,tag:0"`
}

type tsTSTInfo struct {
	Version        int
	Policy         asn1.ObjectIdentifier
	MessageImprint tsMessageImprint
	SerialNumber   *big.Int
	GenTime        time.Time `asn1:"generalized"`
	Nonce          *big.Int  `asn1:"optional"`
}

type tsStatusInfo struct {
	Status   int
	FailInfo asn1.BitString `asn1:"optional"`
}

type tsResponse struct {
	Status tsStatusInfo
	Token  asn1.RawValue `asn1:"optional"`
}

type cmsIssuerAndSerial struct {
	Issuer       asn1.RawValue
	SerialNumber *big.Int
}

type cmsAttribute struct {
	Type   asn1.ObjectIdentifier
	Values asn1.RawValue `asn1:"set"`
}

type cmsSignerInfo struct {
	Version            int
	SID                cmsIssuerAndSerial
	DigestAlgorithm    pkix.AlgorithmIdentifier
	SignedAttrs        asn1.RawValue `asn1:"optional"`
	SignatureAlgorithm pkix.AlgorithmIdentifier
	Signature          []byte
}

type cmsEncapContent struct {
	ContentType asn1.ObjectIdentifier
	Content     []byte `asn1:"explicit,optional,tag:0"`
}

type cmsSignedData struct {
	Version          int
	DigestAlgorithms []pkix.AlgorithmIdentifier `asn1:"set"`
	EncapContentInfo cmsEncapContent
	Certificates     asn1.RawValue   `asn1:"optional"`
	SignerInfos      []cmsSignerInfo `asn1:"set"`
}

type cmsContentInfo struct {
	ContentType asn1.ObjectIdentifier
	Content     asn1.RawValue // [0] EXPLICIT, built by hand (FullBytes would drop the tag)
}

type essCertIDv2 struct {
	CertHash []byte
}

type essSigningCertV2 struct {
	Certs []essCertIDv2
}

// TSATokenSpec describes one token to build; each defect of the C15 alphabet
// is a one-field deviation from the honest spec.
type TSATokenSpec struct {
	Req             *tsRequest
	GenTime         time.Time
	Leaf            *Cert
	Embed           []*x509.Certificate
	Status          int
	NoToken         bool
	FailBadAlg      bool // rejection carries failInfo badAlg
	WrongDigest     bool
	WrongAlg        bool
	NonceMode       int // 0 echo, 1 wrong, 2 omit
	TSTVersion      int
	ContentTypeData bool
	CorruptSig      bool
	BadMsgDigest    bool
	NoSignCertV2    bool
	BadSignCertV2   bool
	SignerKey       *Key // default Leaf.Key
}

func hashOIDFor(h crypto.Hash) asn1.ObjectIdentifier {
	switch h {
	case crypto.SHA384:
		return oidSHA384
	case crypto.SHA512:
		return oidSHA512
	}
	return oidSHA256
}

// BuildTSAResponse returns the DER TimeStampResp and the DER token (ContentInfo).
func BuildTSAResponse(s *TSATokenSpec) (resp []byte, token []byte) {
	if s.NoToken || s.Status >= 2 {
		si := tsStatusInfo{Status: s.Status}
		if s.FailBadAlg {
			si.FailInfo = asn1.BitString{Bytes: []byte{0x80}, BitLength: 1} // badAlg (bit 0)
		}
		return mustMarshal(tsResponse{Status: si}), nil
	}
	imp := s.Req.MessageImprint
	if s.WrongDigest {
		hm := append([]byte(nil), imp.HashedMessage...)
		hm[0] ^= 0xff
		imp.HashedMessage = hm
	}
	if s.WrongAlg {
		// another algorithm with a digest of matching length for it
		if imp.HashAlgorithm.Algorithm.Equal(oidSHA256) {
			imp.HashAlgorithm.Algorithm = oidSHA384
			imp.HashedMessage = make([]byte, 48)
		} else {
			imp.HashAlgorithm.Algorithm = oidSHA256
			imp.HashedMessage = make([]byte, 32)
		}
	}
	tst := tsTSTInfo{Version: 1, Policy: oidTSAPolicy, MessageImprint: imp, SerialNumber: big.NewInt(777), GenTime: s.GenTime.UTC().Truncate(time.Second)}
	if s.TSTVersion != 0 {
		tst.Version = s.TSTVersion
	}
	switch s.NonceMode {
	case 0:
		tst.Nonce = s.Req.Nonce
	case 1:
		if s.Req.Nonce != nil {
			tst.Nonce = new(big.Int).Add(s.Req.Nonce, big.NewInt(1))
		} else {
			tst.Nonce = big.NewInt(5)
		}
	}
	tstDER := mustMarshal(tst)
	ctype := oidTSTInfo
	if s.ContentTypeData {
		ctype = oidData
	}
	key := s.SignerKey
	if key == nil {
		key = s.Leaf.Key
	}
	_, h, _ := sigAlgFor(key)
	hh := h.New()
	hh.Write(tstDER)
	md := hh.Sum(nil)
	if s.BadMsgDigest {
		md = append([]byte(nil), md...)
		md[0] ^= 0x55
	}
	attr := func(oid asn1.ObjectIdentifier, v any) cmsAttribute {
		inner := mustMarshal(v)
		return cmsAttribute{Type: oid, Values: asn1.RawValue{Class: asn1.ClassUniversal, Tag: 17, IsCompound: true, Bytes: inner}}
	}
	attrs := []cmsAttribute{attr(oidAttrContentType, ctype), attr(oidAttrMsgDigest, md)}
	if !s.NoSignCertV2 {
		ch := sha256.Sum256(s.Leaf.X.Raw)
		if s.BadSignCertV2 {
			ch[0] ^= 0x01
		}
		attrs = append(attrs, attr(oidAttrSignCertV2, essSigningCertV2{Certs: []essCertIDv2{{CertHash: ch[:]}}}))
	}
	setDER := mustMarshalParams(attrs, "set") // canonical SET OF, exactly what the verifier re-encodes
	sigAI, sig := signWith(key, setDER)
	if s.CorruptSig {
		sig = append([]byte(nil), sig...)
		sig[len(sig)/2] ^= 0x20
	}
	// re-tag the SET as [0] IMPLICIT
	var setRV asn1.RawValue
	if _, err := asn1.Unmarshal(setDER, &setRV); err != nil {
		panic(err)
	}
	signedAttrs := asn1.RawValue{Class: asn1.ClassContextSpecific, Tag: 0, IsCompound: true, Bytes: setRV.Bytes}
	digAI := pkix.AlgorithmIdentifier{Algorithm: hashOIDFor(h), Parameters: asn1.NullRawValue}
	si := cmsSignerInfo{Version: 1, SID: cmsIssuerAndSerial{Issuer: asn1.RawValue{FullBytes: s.Leaf.X.RawIssuer}, SerialNumber: s.Leaf.X.SerialNumber},
		DigestAlgorithm: digAI, SignedAttrs: signedAttrs, SignatureAlgorithm: sigAI, Signature: sig}
	sd := cmsSignedData{Version: 3, DigestAlgorithms: []pkix.AlgorithmIdentifier{digAI}, EncapContentInfo: cmsEncapContent{ContentType: ctype, Content: tstDER}, SignerInfos: []cmsSignerInfo{si}}
	if len(s.Embed) > 0 {
		var raw []byte
		for _, c := range s.Embed {
			raw = append(raw, c.Raw...)
		}
		sd.Certificates = asn1.RawValue{Class: asn1.ClassContextSpecific, Tag: 0, IsCompound: true, Bytes: raw}
	}
	sdDER := mustMarshal(sd)
	token = mustMarshal(cmsContentInfo{ContentType: oidSignedData, Content: asn1.RawValue{Class: asn1.ClassContextSpecific, Tag: 0, IsCompound: true, Bytes: sdDER}})
	resp = mustMarshal(tsResponse{Status: tsStatusInfo{Status: s.Status}, Token: asn1.RawValue{FullBytes: token}})
	return resp, token
}
