package sim

import (
	"crypto"
	"crypto/rand"
	"crypto/sha1"
	"crypto/x509"
	"crypto/x509/pkix"
	"encoding/asn1"
	"fmt"
	"math/big"
	"time"
)

// Epoch is the instant at which every synctest bubble starts.
var Epoch = time.Date(2000, 1, 1, 0, 0, 0, 0, time.UTC)

var (
	oidExtKeyUsage       = asn1.ObjectIdentifier{2, 5, 29, 37}
	oidFreshestCRL       = asn1.ObjectIdentifier{2, 5, 29, 46}
	oidEKUTimeStamping   = asn1.ObjectIdentifier{1, 3, 6, 1, 5, 5, 7, 3, 8}
	oidEKUOCSPSigning    = asn1.ObjectIdentifier{1, 3, 6, 1, 5, 5, 7, 3, 9}
	oidEKUCodeSigning    = asn1.ObjectIdentifier{1, 3, 6, 1, 5, 5, 7, 3, 3}
	oidCRLNumber         = asn1.ObjectIdentifier{2, 5, 29, 20}
	oidDeltaCRLIndicator = asn1.ObjectIdentifier{2, 5, 29, 27}
	oidIssuingDP         = asn1.ObjectIdentifier{2, 5, 29, 28}
	oidReasonCode        = asn1.ObjectIdentifier{2, 5, 29, 21}
	oidInvalidityDate    = asn1.ObjectIdentifier{2, 5, 29, 24}
	oidUnknownExt        = asn1.ObjectIdentifier{1, 3, 6, 1, 4, 1, 99999, 1, 7}
	oidAuthorityKeyID    = asn1.ObjectIdentifier{2, 5, 29, 35}
)

// CertSpec describes one certificate to be issued by the simulated PKI.
type CertSpec struct {
	CN         string
	Key        *Key
	IsCA       bool
	KeyUsage   x509.KeyUsage
	NoKeyUsage bool
	MaxPathLen int // -1 = absent
	OCSP       []string
	CRL        []string
	Freshest   []string // freshest-CRL extension in the certificate (URLs)
	Serial     *big.Int
	NotBefore  time.Time
	NotAfter   time.Time
	EKU        []x509.ExtKeyUsage
	TSALeaf    bool // critical EKU = timeStamping only
	OCSPSigner bool // EKU = OCSPSigning (delegated responder)
	SelfSigned bool
	ExtraExts  []pkix.Extension
	RawSubject []byte                  // when set, the subject DN is exactly these bytes (a look-alike name)
	EmptyName  bool                    // empty subject DN, critical subjectAltName
	RawEKU     []asn1.ObjectIdentifier // when set, written as a raw EKU extension
	RawEKUCrit bool
}

// Cert is an issued certificate together with its key.
type Cert struct {
	Spec *CertSpec
	X    *x509.Certificate
	Key  *Key
}

func mustMarshal(v any) []byte {
	b, err := asn1.Marshal(v)
	if err != nil {
		panic(err)
	}
	return b
}

func mustMarshalParams(v any, p string) []byte {
	b, err := asn1.MarshalWithParams(v, p)
	if err != nil {
		panic(err)
	}
	return b
}

// generalNamesURIs encodes a CRLDistributionPoints value with one distribution
// point whose fullName carries the URIs.
func crlDPValue(urls []string) []byte {
	type dpName struct {
		FullName []asn1.RawValue `asn1:"optional,tag:0"`
	}
	type dp struct {
		DistributionPoint dpName `asn1:"optional,tag:0"`
	}
	var names []asn1.RawValue
	for _, u := range urls {
		names = append(names, asn1.RawValue{Tag: 6, Class: asn1.ClassContextSpecific, Bytes: []byte(u)})
	}
	return mustMarshal([]dp{{DistributionPoint: dpName{FullName: names}}})
}

// Issue creates a real DER certificate. parent == nil means self-signed.
func Issue(spec *CertSpec, parent *Cert) (*Cert, error) {
	tmpl := &x509.Certificate{
		SerialNumber:          spec.Serial,
		Subject:               pkix.Name{CommonName: spec.CN, Organization: []string{"sim"}},
		NotBefore:             spec.NotBefore,
		NotAfter:              spec.NotAfter,
		BasicConstraintsValid: true,
		IsCA:                  spec.IsCA,
		OCSPServer:            spec.OCSP,
		CRLDistributionPoints: spec.CRL,
		ExtKeyUsage:           spec.EKU,
	}
	if len(spec.RawSubject) > 0 {
		tmpl.RawSubject = spec.RawSubject
	}
	if spec.EmptyName {
		tmpl.Subject = pkix.Name{}
		tmpl.RawSubject = []byte{0x30, 0x00}
		tmpl.DNSNames = []string{spec.CN + ".sim"} // crypto/x509 marks the extension critical for an empty subject
	}
	if !spec.NoKeyUsage {
		tmpl.KeyUsage = spec.KeyUsage
	}
	if spec.IsCA {
		if spec.MaxPathLen >= 0 {
			tmpl.MaxPathLen = spec.MaxPathLen
			tmpl.MaxPathLenZero = spec.MaxPathLen == 0
		} else {
			tmpl.MaxPathLen = -1
		}
	}
	if spec.TSALeaf {
		tmpl.ExtraExtensions = append(tmpl.ExtraExtensions, pkix.Extension{
			Id: oidExtKeyUsage, Critical: true,
			Value: mustMarshal([]asn1.ObjectIdentifier{oidEKUTimeStamping}),
		})
	}
	if len(spec.RawEKU) > 0 {
		tmpl.ExtraExtensions = append(tmpl.ExtraExtensions, pkix.Extension{Id: oidExtKeyUsage, Critical: spec.RawEKUCrit, Value: mustMarshal(spec.RawEKU)})
	}
	if spec.OCSPSigner {
		tmpl.ExtKeyUsage = append(tmpl.ExtKeyUsage, x509.ExtKeyUsageOCSPSigning)
	}
	if len(spec.Freshest) > 0 {
		tmpl.ExtraExtensions = append(tmpl.ExtraExtensions, pkix.Extension{
			Id: oidFreshestCRL, Value: crlDPValue(spec.Freshest),
		})
	}
	tmpl.ExtraExtensions = append(tmpl.ExtraExtensions, spec.ExtraExts...)
	var parentX *x509.Certificate
	var signer crypto.Signer
	if parent == nil {
		parentX = tmpl
		signer = spec.Key.Priv
	} else {
		parentX = parent.X
		signer = parent.Key.Priv
	}
	if tmpl.SerialNumber == nil {
		tmpl.SerialNumber = big.NewInt(1)
	}
	der, err := x509.CreateCertificate(rand.Reader, tmpl, parentX, spec.Key.Priv.Public(), signer)
	if err != nil {
		return nil, fmt.Errorf("issue %s: %w", spec.CN, err)
	}
	x, err := x509.ParseCertificate(der)
	if err != nil {
		return nil, fmt.Errorf("parse issued %s: %w", spec.CN, err)
	}
	return &Cert{Spec: spec, X: x, Key: spec.Key}, nil
}

// sigAlgFor returns the x509 signature algorithm and hash used when `k` signs
// simulated protocol objects (OCSP responses, CRLs).
func sigAlgFor(k *Key) (x509.SignatureAlgorithm, crypto.Hash, pkix.AlgorithmIdentifier) {
	switch k.Kind {
	case "ec256", "ec224":
		return x509.ECDSAWithSHA256, crypto.SHA256, pkix.AlgorithmIdentifier{Algorithm: asn1.ObjectIdentifier{1, 2, 840, 10045, 4, 3, 2}}
	case "ec384":
		return x509.ECDSAWithSHA384, crypto.SHA384, pkix.AlgorithmIdentifier{Algorithm: asn1.ObjectIdentifier{1, 2, 840, 10045, 4, 3, 3}}
	case "ec521":
		return x509.ECDSAWithSHA512, crypto.SHA512, pkix.AlgorithmIdentifier{Algorithm: asn1.ObjectIdentifier{1, 2, 840, 10045, 4, 3, 4}}
	default: // rsa: PKCS#1 v1.5 with SHA-256
		return x509.SHA256WithRSA, crypto.SHA256, pkix.AlgorithmIdentifier{Algorithm: asn1.ObjectIdentifier{1, 2, 840, 113549, 1, 1, 11}, Parameters: asn1.NullRawValue}
	}
}

func signWith(k *Key, tbs []byte) (pkix.AlgorithmIdentifier, []byte) {
	_, h, ai := sigAlgFor(k)
	hh := h.New()
	hh.Write(tbs)
	sig, err := k.Priv.Sign(rand.Reader, hh.Sum(nil), h)
	if err != nil {
		panic(err)
	}
	return ai, sig
}

// subjectKeySHA1 is the SHA-1 of the subjectPublicKey BIT STRING contents, as
// used in OCSP CertID.issuerKeyHash and byKey responder ids.
func subjectKeySHA1(c *x509.Certificate) []byte {
	var spki struct {
		Algorithm pkix.AlgorithmIdentifier
		PublicKey asn1.BitString
	}
	if _, err := asn1.Unmarshal(c.RawSubjectPublicKeyInfo, &spki); err != nil {
		panic(err)
	}
	s := sha1.Sum(spki.PublicKey.RightAlign())
	return s[:]
}
