package sim

import (
	"bytes"
	"context"
	"errors"
	"fmt"
	"io"
	"net"
	"net/http"
	"net/url"
	"strings"
	"sync"
	"syscall"
	"time"
)

// HTTP-level fault kinds. 0 is "no fault".
const (
	FNone = iota
	FConnErr
	FStall
	FStatus
	FRedirect
	FEmpty
	FTruncate
	FBodyErr
	FBodyStall
	FGarbage
	FOversize
	FEndless
	FPanic
	FWrongCT
	FLyingCL  // announces a huge Content-Length, sends a small body, then the connection drops
	FCloseErr // the complete body is delivered (end marker included); closing the body then reports an error
	nFaultKinds
)

var faultNames = []string{"none", "conn_error", "stall", "status", "redirect", "empty_body", "truncated", "body_error", "body_stall", "garbage", "oversize", "endless", "panic", "wrong_content_type", "lying_content_length", "close_error"}

// Fault is an HTTP-level fault plan of one exchange.
type Fault struct {
	Kind  int
	Param int // status code / permille / stall ms
}

func (f Fault) String() string {
	if f.Kind == FStatus || f.Kind == FTruncate || f.Kind == FBodyStall || (f.Kind == FRedirect && f.Param != 0) || (f.Kind == FConnErr && f.Param != 0) {
		return fmt.Sprintf("%s(%d)", faultNames[f.Kind], f.Param)
	}
	return faultNames[f.Kind]
}

// XRec is what one exchange observed. It is written only by the goroutine that
// performs the exchange and read only after the run.
type XRec struct {
	Begun         bool
	TBegin        time.Time
	Method        string
	Returned      bool // RoundTrip returned (response or error)
	TReturn       time.Time
	Outcome       string // "response" | "conn_error" | "ctx_done" | "panic"
	Status        int
	BodyLen       int64 // bytes the body could provide (-1 endless)
	BodyRead      int64 // bytes handed out
	BodyEnd       bool  // EOF or error reported to the reader
	TBodyEnd      time.Time
	BodyErr       string
	Closed        bool
	TClosed       time.Time
	Redirected    bool
	Unbounded     bool // reader consumed beyond the guard
	Served        any  // content descriptor written by Serve (e.g. *OCSPServed)
	CallerID      int
	Hops          int  // redirect loop: hops followed beyond the first
	ReqInfo       any  // decoded request info (kept across a redirect hop)
	CancelledHere bool // the context was cancelled when this body was closed
}

// Exchange is one planned HTTP exchange (a slot).
type Exchange struct {
	Key     string // caller|url
	URL     string
	Kind    string // "ocsp" | "crl" | "delta" | "tsa"
	CertPos int
	SrcIdx  int
	Attempt int
	Latency time.Duration
	Fault   Fault
	// Serve produces the honest-or-Byzantine content at the delivery instant.
	Serve         func(x *Exchange, req *http.Request, reqBody []byte, now time.Time) (body []byte, contentType string)
	ReadCap       int64 // size cap the library is expected to honour for this kind
	CancelOnClose bool  // the caller's context is cancelled when the library closes this body
	Prior         bool  // C15: an earlier exchange of the same slot list belongs to the object's earlier life
	Rec           XRec
}

type slotList struct {
	xs   []*Exchange
	next int
}

type callerKey struct{}

// WithCaller tags a context with the simulated caller id.
func WithCaller(ctx context.Context, id int) context.Context {
	return context.WithValue(ctx, callerKey{}, id)
}

func callerOf(ctx context.Context) int {
	if v, ok := ctx.Value(callerKey{}).(int); ok {
		return v
	}
	return 0
}

// Net is the simulated network: an http.RoundTripper whose every answer is
// looked up in a plan built before the run.
type Net struct {
	slots map[string]*slotList
	all   []*Exchange
	// DefaultServe answers exchanges the plan did not foresee.
	DefaultServe func(req *http.Request, reqBody []byte, now time.Time) (status int, body []byte, contentType string)
	mu           sync.Mutex // only for the unplanned path
	Unplanned    []UnplannedRec
	redirects    map[string]*Exchange
	PanicValue   any
	// OnClose is called (by the goroutine performing the exchange) when the
	// library closes a response body: the hook for "cancel exactly at this
	// exchange boundary".
	OnClose func(x *Exchange)
}

type UnplannedRec struct {
	T      time.Time
	Caller int
	Method string
	URL    string
}

func NewNet() *Net {
	return &Net{slots: map[string]*slotList{}, redirects: map[string]*Exchange{}}
}

// slotKey identifies a slot list by caller and host name: every simulated
// source has its own host name, so the host identifies the source whatever
// path or query the library appends (OCSP GET).
func slotKey(caller int, id string) string {
	return fmt.Sprintf("%d|%s", caller, id)
}

// normURL is scheme://host/path?query with scheme and host in lower case.
func normURL(u string) string {
	p, err := url.Parse(u)
	if err != nil || p.Host == "" {
		return "unparsable:" + u
	}
	s := "url:" + strings.ToLower(p.Scheme) + "://" + strings.ToLower(p.Host) + p.EscapedPath()
	if p.RawQuery != "" {
		s += "?" + p.RawQuery
	}
	return s
}

func hostOf(u string) string {
	p, err := url.Parse(u)
	if err != nil || p.Host == "" {
		return "unparsable:" + u
	}
	return strings.ToLower(p.Host)
}

// Plan registers an exchange for (caller, url); successive Plans for the same
// pair are successive attempts.
func (n *Net) Plan(caller int, x *Exchange) *Exchange {
	k := slotKey(caller, hostOf(x.URL))
	if x.Kind == "crl" || x.Kind == "delta" {
		// CRL locations are requested verbatim: identify the slot by the whole
		// URL, so that two locations on one host are never confused (whichever
		// of them the library asks first, or not at all because of a cache)
		k = slotKey(caller, normURL(x.URL))
	}
	sl := n.slots[k]
	if sl == nil {
		sl = &slotList{}
		n.slots[k] = sl
	}
	x.Key = k
	x.Attempt = len(sl.xs)
	x.Rec.CallerID = caller
	sl.xs = append(sl.xs, x)
	n.all = append(n.all, x)
	n.redirects[fmt.Sprintf("%s#%d", k, x.Attempt)] = x
	return x
}

func (n *Net) All() []*Exchange { return n.all }

var errSimConn = errors.New("sim: connection refused")

// connError returns one of the typed errors real transports produce.
func connError(kind int, host string) error {
	switch kind {
	case 1:
		return &net.DNSError{Err: "no such host", Name: host, IsNotFound: true}
	case 2:
		return &net.DNSError{Err: "server misbehaving", Name: host, IsTemporary: true}
	case 3:
		return &net.OpError{Op: "dial", Net: "tcp", Err: syscall.ECONNREFUSED}
	case 4:
		return io.ErrUnexpectedEOF
	case 5:
		return &net.OpError{Op: "read", Net: "tcp", Err: syscall.ECONNRESET}
	case 6:
		return io.EOF
	}
	return errSimConn
}

// sleepCtx waits d of (fake) time or until ctx is done.
func sleepCtx(ctx context.Context, d time.Duration) error {
	if d <= 0 {
		select {
		case <-ctx.Done():
			return ctx.Err()
		default:
			return nil
		}
	}
	t := time.NewTimer(d)
	defer t.Stop()
	select {
	case <-t.C:
		return nil
	case <-ctx.Done():
		return ctx.Err()
	}
}

const maxStall = time.Hour

// redirectLoopCap is where the simulated endless redirector gives up (a real
// one would not): a client that is still following by then has no bound.
const redirectLoopCap = 2000

func (n *Net) RoundTrip(req *http.Request) (*http.Response, error) {
	ctx := req.Context()
	u := req.URL.String()
	var reqBody []byte
	if req.Body != nil {
		reqBody, _ = io.ReadAll(req.Body)
		req.Body.Close()
	}
	// redirect hop?
	if req.URL.Host == "redirect.sim" {
		id := req.URL.Query().Get("k") // Query() has already unescaped it
		x := n.redirects[id]
		if x != nil {
			x.Rec.Redirected = true
			if x.Fault.Kind == FRedirect && x.Fault.Param >= 1000 && x.Rec.Hops < redirectLoopCap {
				// a server that keeps redirecting (to itself, over plain HTTP):
				// every hop costs a millisecond
				x.Rec.Hops++
				if err := sleepCtx(ctx, time.Millisecond); err != nil {
					x.Rec.Returned, x.Rec.TReturn, x.Rec.Outcome = true, time.Now(), "ctx_done"
					return nil, err
				}
				x.Rec.TReturn = time.Now()
				h := http.Header{}
				h.Set("Location", "http://redirect.sim/r?k="+url.QueryEscape(id))
				code := x.Fault.Param % 1000
				return &http.Response{StatusCode: code, Status: fmt.Sprintf("%d %s", code, http.StatusText(code)), Header: h, Body: http.NoBody, Request: req, ProtoMajor: 1, ProtoMinor: 1}, nil
			}
			return n.respond(x, req, reqBody, Fault{})
		}
	}
	caller := callerOf(ctx)
	key := slotKey(caller, normURL(u))
	if _, ok := n.slots[key]; !ok {
		key = slotKey(caller, strings.ToLower(req.URL.Host))
	}
	sl := n.slots[key]
	if sl == nil || sl.next >= len(sl.xs) {
		return n.unplanned(req, reqBody, caller)
	}
	x := sl.xs[sl.next]
	sl.next++
	x.Rec.Begun = true
	x.Rec.TBegin = time.Now()
	x.Rec.Method = req.Method
	if x.Fault.Kind == FStall {
		err := sleepCtx(ctx, maxStall)
		x.Rec.Returned, x.Rec.TReturn = true, time.Now()
		if err != nil {
			x.Rec.Outcome = "ctx_done"
			return nil, err
		}
		x.Rec.Outcome = "conn_error"
		return nil, errSimConn
	}
	if err := sleepCtx(ctx, x.Latency); err != nil {
		x.Rec.Returned, x.Rec.TReturn, x.Rec.Outcome = true, time.Now(), "ctx_done"
		return nil, err
	}
	switch x.Fault.Kind {
	case FConnErr:
		x.Rec.Returned, x.Rec.TReturn, x.Rec.Outcome = true, time.Now(), "conn_error"
		return nil, connError(x.Fault.Param, req.URL.Host)
	case FPanic:
		x.Rec.Returned, x.Rec.TReturn, x.Rec.Outcome = true, time.Now(), "panic"
		panic(injectedPanicValue(n.PanicValue, x.Fault.Param))
	case FRedirect:
		code := x.Fault.Param % 1000 // 301/302/303 turn a POST into a GET, 307/308 repeat it with its body; +1000: the target redirects again, for ever
		if code == 0 {
			code = 302
		}
		x.Rec.Status = code
		// the first hop is over; if the client follows the redirect the second
		// hop overwrites this record
		x.Rec.Returned, x.Rec.TReturn, x.Rec.Outcome = true, time.Now(), "redirect"
		if x.Serve != nil && x.Kind == "ocsp" {
			// keep the decoded request for the second hop (same goroutine)
			x.Rec.ReqInfo = decodeOCSPReq(req, reqBody)
		}
		h := http.Header{}
		h.Set("Location", "http://redirect.sim/r?k="+url.QueryEscape(fmt.Sprintf("%s#%d", x.Key, x.Attempt)))
		return &http.Response{StatusCode: code, Status: fmt.Sprintf("%d %s", code, http.StatusText(code)), Header: h, Body: http.NoBody, Request: req, ProtoMajor: 1, ProtoMinor: 1}, nil
	}
	return n.respond(x, req, reqBody, x.Fault)
}

func (n *Net) respond(x *Exchange, req *http.Request, reqBody []byte, f Fault) (*http.Response, error) {
	now := time.Now()
	status := 200
	var body []byte
	ct := ""
	if x.Serve != nil {
		body, ct = x.Serve(x, req, reqBody, now)
	}
	hdr := http.Header{}
	if ct != "" {
		hdr.Set("Content-Type", ct)
	}
	if (len(x.Key)+x.CertPos+x.SrcIdx)%2 == 0 {
		// caching hints many servers and CDNs attach (unsigned, and so of no
		// consequence for what the body proves)
		hdr.Set("Date", now.UTC().Format(http.TimeFormat))
		hdr.Set("Expires", now.Add(6*time.Hour).UTC().Format(http.TimeFormat))
		hdr.Set("Cache-Control", "max-age=21600, public, no-transform, must-revalidate")
		hdr.Set("Last-Modified", now.Add(-time.Hour).UTC().Format(http.TimeFormat))
		hdr.Set("ETag", "\"sim\"")
	}
	b := &simBody{x: x, ctx: req.Context(), data: body, cap: x.ReadCap, net: n}
	switch f.Kind {
	case FStatus:
		status = f.Param % 1000
		b.data = []byte("error")
		// a hint some servers and CDNs attach to an error answer (ten
		// thousands digit of the parameter)
		switch f.Param / 10000 {
		case 1:
			hdr.Set("Retry-After", "1")
		case 2:
			hdr.Set("Retry-After", "86400")
		case 3:
			hdr.Set("Retry-After", now.Add(2*time.Second).UTC().Format(http.TimeFormat))
		case 4:
			hdr.Set("Retry-After", now.Add(10*365*24*time.Hour).UTC().Format(http.TimeFormat))
		case 5:
			hdr.Set("Retry-After", now.Add(-time.Hour).UTC().Format(http.TimeFormat))
		}
		if (f.Param/1000)%10 == 1 {
			// an error page that never ends (a conforming client does not
			// need the body of a non-200 answer at all)
			b.data = nil
			b.synthetic = -1
		}
	case FEmpty:
		b.data = nil
	case FTruncate:
		nb := len(body) * f.Param / 1000
		if nb >= len(body) {
			nb = len(body) - 1
		}
		if nb < 0 {
			nb = 0
		}
		b.data = body[:nb]
	case FBodyErr:
		b.data = body[:len(body)/2]
		b.failAtEnd = true
	case FBodyStall:
		b.stallAt = len(body) / 2
		b.stall = time.Duration(f.Param) * time.Millisecond
	case FGarbage:
		g := make([]byte, len(body)+7)
		fillPattern(g, uint64(len(body))*2654435761+uint64(x.CertPos))
		b.data = g
	case FOversize:
		b.data = nil
		b.synthetic = x.ReadCap + 1 + int64(f.Param)
	case FEndless:
		b.data = nil
		b.synthetic = -1
	case FWrongCT:
		hdr.Set("Content-Type", "text/html")
	case FLyingCL:
		b.failAtEnd = true
	}
	switch {
	case b.synthetic < 0:
		x.Rec.BodyLen = -1
	case b.synthetic > 0:
		x.Rec.BodyLen = b.synthetic
	default:
		x.Rec.BodyLen = int64(len(b.data))
	}
	x.Rec.Status = status
	x.Rec.Returned, x.Rec.TReturn, x.Rec.Outcome = true, now, "response"
	// half of the servers announce the body length (decided from static
	// properties of the slot), the others stream; endless bodies never do
	cl := int64(-1)
	if f.Kind == FLyingCL {
		cl = 40 << 20
		hdr.Set("Content-Length", fmt.Sprint(cl))
	} else if x.Rec.BodyLen >= 0 && (x.CertPos+x.SrcIdx+x.Attempt+len(x.Kind))%2 == 0 {
		cl = x.Rec.BodyLen
		hdr.Set("Content-Length", fmt.Sprint(cl))
	}
	return &http.Response{
		StatusCode: status, Status: fmt.Sprintf("%d %s", status, http.StatusText(status)),
		Header: hdr, Body: b, Request: req, ProtoMajor: 1, ProtoMinor: 1, ContentLength: cl,
	}, nil
}

func (n *Net) unplanned(req *http.Request, reqBody []byte, caller int) (*http.Response, error) {
	n.mu.Lock()
	n.Unplanned = append(n.Unplanned, UnplannedRec{T: time.Now(), Caller: caller, Method: req.Method, URL: req.URL.String()})
	n.mu.Unlock()
	status, body, ct := 404, []byte("not found"), ""
	if n.DefaultServe != nil {
		status, body, ct = n.DefaultServe(req, reqBody, time.Now())
	}
	hdr := http.Header{}
	if ct != "" {
		hdr.Set("Content-Type", ct)
	}
	return &http.Response{StatusCode: status, Status: fmt.Sprintf("%d", status), Header: hdr,
		Body: io.NopCloser(bytes.NewReader(body)), Request: req, ProtoMajor: 1, ProtoMinor: 1, ContentLength: -1}, nil
}

func fillPattern(p []byte, seed uint64) {
	x := seed | 1
	for i := range p {
		x ^= x << 13
		x ^= x >> 7
		x ^= x << 17
		p[i] = byte(x)
	}
}

// simBody is the instrumented response body.
type simBody struct {
	x         *Exchange
	ctx       context.Context
	data      []byte
	off       int
	synthetic int64 // >0: that many generated bytes; <0: endless
	gen       int64
	failAtEnd bool
	stallAt   int
	stall     time.Duration
	stalled   bool
	cap       int64
	net       *Net
}

const unboundedSlack = 1 << 20

func (b *simBody) end(err error) {
	if !b.x.Rec.BodyEnd {
		b.x.Rec.BodyEnd = true
		b.x.Rec.TBodyEnd = time.Now()
		if err != nil && err != io.EOF {
			b.x.Rec.BodyErr = err.Error()
		}
	}
}

func (b *simBody) Read(p []byte) (int, error) {
	if len(p) == 0 {
		return 0, nil
	}
	if err := b.ctx.Err(); err != nil {
		b.end(err)
		return 0, err
	}
	if b.synthetic != 0 {
		n := int64(len(p))
		if b.synthetic > 0 && b.gen+n > b.synthetic {
			n = b.synthetic - b.gen
		}
		if n == 0 {
			b.end(io.EOF)
			return 0, io.EOF
		}
		if b.cap > 0 && b.gen+n > b.cap+unboundedSlack {
			b.x.Rec.Unbounded = true
			err := errors.New("sim: unbounded read guard")
			b.end(err)
			return 0, err
		}
		for i := int64(0); i < n; i++ {
			p[i] = 0x30
		}
		b.gen += n
		b.x.Rec.BodyRead += n
		return int(n), nil
	}
	if b.stall > 0 && !b.stalled && b.off >= b.stallAt {
		b.stalled = true
		if err := sleepCtx(b.ctx, b.stall); err != nil {
			b.end(err)
			return 0, err
		}
	}
	if b.off >= len(b.data) {
		if b.failAtEnd {
			err := errors.New("sim: connection reset by peer")
			b.end(err)
			return 0, err
		}
		b.end(io.EOF)
		return 0, io.EOF
	}
	lim := len(b.data)
	if b.stall > 0 && !b.stalled && b.stallAt > b.off {
		lim = b.stallAt
	}
	n := copy(p, b.data[b.off:lim])
	b.off += n
	b.x.Rec.BodyRead += int64(n)
	return n, nil
}

func (b *simBody) Close() error {
	if !b.x.Rec.Closed {
		b.x.Rec.Closed = true
		b.x.Rec.TClosed = time.Now()
		if b.net != nil && b.net.OnClose != nil {
			b.net.OnClose(b.x)
		}
		if b.x.Fault.Kind == FCloseErr {
			return errors.New("sim: error while closing the connection")
		}
	}
	return nil
}

// dropPending marks every planned but unused attempt as consumed, so that a
// later operation of a history cannot be answered from an earlier plan.
func (n *Net) dropPending() {
	for _, sl := range n.slots {
		sl.next = len(sl.xs)
	}
}

// dropPendingExcept marks planned but unused attempts as consumed, keeping
// the given ones available.
func (n *Net) dropPendingExcept(keep ...*Exchange) {
	for _, sl := range n.slots {
		for sl.next < len(sl.xs) {
			k := false
			for _, e := range keep {
				if e != nil && sl.xs[sl.next] == e {
					k = true
				}
			}
			if k {
				break
			}
			sl.next++
		}
	}
}
