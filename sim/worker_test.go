package sim

import (
	"bufio"
	"encoding/json"
	"fmt"
	"os"
	"runtime"
	"sort"
	"strconv"
	"testing"
	"time"
)

func envInt(k string, def int64) int64 {
	if v := os.Getenv(k); v != "" {
		n, err := strconv.ParseInt(v, 10, 64)
		if err == nil {
			return n
		}
	}
	return def
}

// ReplayFile is the on-disk format of a violation (DESIGN Appendix C).
type ReplayFile struct {
	Property    string   `json:"property"`
	Rule        string   `json:"rule"`
	Signature   string   `json:"signature"`
	Message     string   `json:"message"`
	BaseSeed    uint64   `json:"base_seed"`
	Run         uint64   `json:"run"`
	Tier        string   `json:"tier"`
	Build       string   `json:"build"`
	Tape        []uint32 `json:"tape"`
	TapeOrigLen int      `json:"tape_original_len"`
	MinExecs    int      `json:"minimise_executions"`
	Scenario    any      `json:"scenario"`
	Trace       []string `json:"trace"`
	TraceSHA256 string   `json:"trace_sha256"`
	Go          string   `json:"go"`
}

func runTape(p *PropDef, vals []uint32, tier string) *RunResult {
	return p.Run(ReplayTape(vals), NewStats(), tier)
}

func hasRule(rr *RunResult, rule, sig string) *Violation {
	for i := range rr.Violations {
		if rr.Violations[i].Rule == rule && (sig == "" || rr.Violations[i].Sig == sig) {
			return &rr.Violations[i]
		}
	}
	return nil
}

// minimiseWall bounds one minimisation in wall-clock time (multi-schedule
// profiles cost tens of milliseconds per execution).
var minimiseWall = 8 * time.Second

// minimise delta-debugs the tape while the same rule still fails.
func minimise(p *PropDef, tape []uint32, rule, sig, tier string, budget int) ([]uint32, int) {
	execs := 0
	cur := append([]uint32(nil), tape...)
	deadline := time.Now().Add(minimiseWall)
	try := func(c []uint32) bool {
		if execs >= budget || time.Now().After(deadline) {
			return false
		}
		execs++
		rr := runTape(p, c, tier)
		return rr.Harness == "" && hasRule(rr, rule, sig) != nil
	}
	// 1. truncate the tail (a tape that runs out yields zeros)
	lo, hi := 0, len(cur)
	for lo < hi && execs < budget {
		mid := (lo + hi) / 2
		if try(cur[:mid]) {
			hi = mid
		} else {
			lo = mid + 1
		}
	}
	if hi < len(cur) && try(cur[:hi]) {
		cur = cur[:hi]
	}
	// 2. zero chunks
	for size := len(cur) / 2; size >= 1 && execs < budget; size /= 2 {
		for off := 0; off < len(cur) && execs < budget; off += size {
			end := off + size
			if end > len(cur) {
				end = len(cur)
			}
			allZero := true
			for _, v := range cur[off:end] {
				if v != 0 {
					allZero = false
				}
			}
			if allZero {
				continue
			}
			c := append([]uint32(nil), cur...)
			for i := off; i < end; i++ {
				c[i] = 0
			}
			if try(c) {
				cur = c
			}
		}
	}
	// 3. shrink single values
	for i := 0; i < len(cur) && execs < budget; i++ {
		for cur[i] > 0 && execs < budget {
			c := append([]uint32(nil), cur...)
			c[i] = cur[i] / 2
			if try(c) {
				cur = c
				continue
			}
			c[i] = cur[i] - 1
			if cur[i]-1 != cur[i]/2 && try(c) {
				cur = c
				continue
			}
			break
		}
	}
	// drop trailing zeros
	for len(cur) > 0 && cur[len(cur)-1] == 0 {
		cur = cur[:len(cur)-1]
	}
	return cur, execs
}

type summary struct {
	Type      string           `json:"type"`
	Worker    int64            `json:"worker"`
	Runs      int64            `json:"runs"`
	Bubbles   int64            `json:"bubbles"`
	SimTimeMs int64            `json:"sim_time_ms"`
	WallS     float64          `json:"wall_s"`
	Faults    map[string]int64 `json:"faults"`
	Behav     map[string]int64 `json:"behaviours"`
	Probes    map[string]int64 `json:"probes"`
	RuleAnte  map[string]int64 `json:"rule_antecedents"`
	Vacuous   map[string]int64 `json:"vacuous"`
	Shapes    []string         `json:"shapes"`
	Interleav []string         `json:"interleavings"`
	Samples   []any            `json:"samples"`
	Harness   []string         `json:"harness_errors"`
	LastRun   uint64           `json:"last_run"`
}

func keys(m map[string]struct{}) []string {
	out := make([]string, 0, len(m))
	for k := range m {
		out = append(out, k)
	}
	sort.Strings(out)
	return out
}

// TestWorker is the env-driven batch / replay entry point.
func TestWorker(t *testing.T) {
	curT = t
	prop := os.Getenv("VERIF_PROP")
	if prop == "" {
		t.Skip("VERIF_PROP not set")
	}
	p := propDefs[prop]
	if p == nil {
		t.Fatalf("unknown property %s", prop)
	}
	tier := os.Getenv("VERIF_TIER")
	if tier == "" {
		tier = "quick"
	}
	build := "plain"
	if raceEnabled {
		build = "race"
	}
	outPath := os.Getenv("VERIF_OUT")
	var out *bufio.Writer
	var outF *os.File
	if outPath != "" {
		f, err := os.Create(outPath)
		if err != nil {
			t.Fatal(err)
		}
		defer f.Close()
		outF = f
		out = bufio.NewWriter(f)
	} else {
		out = bufio.NewWriter(os.Stdout)
	}
	emit := func(v any) {
		b, _ := json.Marshal(v)
		out.Write(b)
		out.WriteByte('\n')
		out.Flush()
	}
	// ---------- replay mode ----------
	if rp := os.Getenv("VERIF_REPLAY"); rp != "" {
		b, err := os.ReadFile(rp)
		if err != nil {
			t.Fatal(err)
		}
		var rf ReplayFile
		if err := json.Unmarshal(b, &rf); err != nil {
			t.Fatal(err)
		}
		rr := runTape(p, rf.Tape, rf.Tier)
		v := hasRule(rr, rf.Rule, rf.Signature)
		res := map[string]any{"type": "replay", "reproduced": v != nil, "trace_sha256": rr.TraceHash, "trace_match": rr.TraceHash == rf.TraceSHA256, "harness": rr.Harness}
		if v != nil {
			res["message"] = v.Msg
			res["signature"] = v.Sig
		}
		emit(res)
		return
	}
	base := uint64(envInt("VERIF_SEED", 1))
	worker := envInt("VERIF_WORKER", 0)
	workers := envInt("VERIF_WORKERS", 1)
	budget := time.Duration(envInt("VERIF_BUDGET_MS", 5000)) * time.Millisecond
	maxRuns := envInt("VERIF_MAX_RUNS", 1<<60)
	maxMin := int(envInt("VERIF_MAX_MINIMISE", 4))
	st := NewStats()
	sum := &summary{Type: "summary", Worker: worker}
	start := time.Now()
	seenViol := map[string]bool{}
	maxShapes := int(envInt("VERIF_MAX_SHAPES", 150000))
	watchdogAfter := time.Duration(envInt("VERIF_WATCHDOG_S", 25)) * time.Second
	emitHash := os.Getenv("VERIF_EMIT_HASH") != ""
	startI := envInt("VERIF_START_I", 0)
	onlyRun := envInt("VERIF_ONLY_RUN", -1)
	for i := startI; i < startI+maxRuns; i++ {
		if time.Since(start) > budget {
			break
		}
		run := uint64(worker + i*workers)
		if onlyRun >= 0 {
			if i > startI {
				break
			}
			run = uint64(onlyRun)
		}
		if outF != nil {
			fmt.Fprintf(out, "{\"type\":\"begin\",\"run\":%d,\"i\":%d}\n", run, i)
			out.Flush()
		}
		// wall-clock watchdog (a real timer: this goroutine is outside every
		// bubble): a run that makes no progress for this long is a busy loop
		// inside the library, which fake time cannot see
		if raceEnabled {
			watchdogAfter = 3 * time.Duration(envInt("VERIF_WATCHDOG_S", 25)) * time.Second
		}
		wd := time.AfterFunc(watchdogAfter, func() {
			fmt.Fprintf(os.Stderr, "\nWATCHDOG: run %d exceeded %s of wall-clock time\n", run, watchdogAfter)
			buf := make([]byte, 1<<20)
			os.Stderr.Write(buf[:runtime.Stack(buf, true)])
			fmt.Fprintf(os.Stderr, "\nWATCHDOG: end of goroutine dump for run %d\n", run)
			if outF != nil {
				fmt.Fprintf(outF, "{\"type\":\"watchdog\",\"run\":%d}\n", run)
			}
			os.Exit(3)
		})
		wdReset = func() { wd.Reset(watchdogAfter) }
		tp := NewTape(base, run)
		rr := p.Run(tp, st, tier)
		wd.Stop()
		wdReset = nil
		st.Runs++
		sum.LastRun = run
		if errs := takeSelfCheckErrs(); len(errs) > 0 && rr.Harness == "" {
			rr.Harness = "construction self-check: " + errs[0]
		}
		if rr.Harness != "" {
			if len(sum.Harness) < 5 {
				sum.Harness = append(sum.Harness, fmt.Sprintf("run %d: %s", run, rr.Harness))
			}
			continue
		}
		if rr.Nontrivial && len(st.Shapes) < maxShapes {
			// counted conservatively: beyond the cap new shapes are no longer recorded
			st.Shapes[rr.ShapeKey] = struct{}{}
		}
		if emitHash {
			vs := []string{}
			for _, v := range rr.Violations {
				vs = append(vs, v.Rule)
			}
			emit(map[string]any{"type": "hash", "run": run, "trace_sha256": rr.TraceHash, "violations": vs, "tape_len": len(tp.Log)})
			if os.Getenv("VERIF_EMIT_TRACE") != "" {
				emit(map[string]any{"type": "trace", "run": run, "trace": rr.Trace})
			}
		}
		if len(sum.Samples) < 3 && (rr.Nontrivial || i > 50) {
			tr := rr.Trace
			if len(tr) > 40 {
				tr = tr[:40]
			}
			sum.Samples = append(sum.Samples, map[string]any{"run": run, "scenario": rr.Scenario, "trace": tr})
		}
		for _, v := range rr.Violations {
			k := v.Rule + "|" + v.Sig
			if seenViol[k] {
				continue
			}
			seenViol[k] = true
			rf := &ReplayFile{Property: v.Prop, Rule: v.Rule, Signature: v.Sig, Message: v.Msg, BaseSeed: base, Run: run, Tier: tier, Build: build,
				Tape: append([]uint32(nil), tp.Log...), TapeOrigLen: len(tp.Log), Scenario: rr.Scenario, Trace: rr.Trace, TraceSHA256: rr.TraceHash, Go: runtime.Version()}
			if len(seenViol) <= maxMin {
				mt, ex := minimise(p, tp.Log, v.Rule, v.Sig, tier, 400)
				mr := runTape(p, mt, tier)
				if mv := hasRule(mr, v.Rule, v.Sig); mv != nil && mr.Harness == "" {
					rf.Tape, rf.MinExecs = mt, ex
					rf.Signature, rf.Message = mv.Sig, mv.Msg
					rf.Scenario, rf.Trace, rf.TraceSHA256 = mr.Scenario, mr.Trace, mr.TraceHash
				}
			}
			emit(map[string]any{"type": "violation", "replay": rf})
		}
	}
	sum.Runs, sum.Bubbles, sum.SimTimeMs = st.Runs, st.Bubbles, st.SimTimeMs
	sum.WallS = time.Since(start).Seconds()
	sum.Faults, sum.Behav, sum.Probes, sum.RuleAnte, sum.Vacuous = st.Faults, st.Behav, st.Probes, st.RuleAnte, st.Vacuous
	sum.Shapes, sum.Interleav = keys(st.Shapes), keys(st.Interleav)
	emit(sum)
}
