//go:build !race

package sim

const raceEnabled = false
