package sim

import (
	"sort"
	"testing"
	"testing/synctest"
)

func sortStrings(s []string) { sort.Strings(s) }

// curT is the *testing.T of the worker test; synctest.Test needs one.
var curT *testing.T

// runBubble runs f in a fresh synctest bubble (fake clock starting at Epoch).
// Deadlock and leaked-goroutine panics propagate to the caller, which recovers
// them.
func runBubble(f func()) {
	if wdReset != nil {
		wdReset()
	}
	synctest.Test(curT, func(t *testing.T) { f() })
}

// wdReset re-arms the wall-clock watchdog; set by the worker. The watchdog
// budget is per bubble (a busy loop lives inside one bubble), so that long
// multi-schedule runs on a loaded machine do not trip it.
var wdReset func()
