package sim

import (
	"sort"
	"testing"
	"testing/synctest"
	"time"
)

func sortStrings(s []string) { sort.Strings(s) }

// curT is the *testing.T of the worker test; synctest.Test needs one.
var curT *testing.T

// runBubble runs f in a fresh synctest bubble (fake clock starting at Epoch).
// Deadlock and leaked-goroutine panics propagate to the caller, which recovers
// them.
func runBubble(f func()) {
	if wdReset != nil {
		wdReset()
	}
	synctest.Test(curT, func(t *testing.T) { f() })
}

// wdReset re-arms the wall-clock watchdog; set by the worker. The watchdog
// budget is per bubble (a busy loop lives inside one bubble), so that long
// multi-schedule runs on a loaded machine do not trip it.
var wdReset func()

// cancelOffset is added to every timed cancellation. Latencies are whole
// milliseconds and client timeouts end on half milliseconds (which moves the
// later exchanges of that goroutine onto the half-millisecond lattice), so a
// cancellation on a quarter millisecond can never tie with an exchange
// completion or a timeout. A tie would be resolved by the Go scheduler, i.e.
// outside the simulator's control.
const cancelOffset = 250 * time.Microsecond
