package sim

import (
	"crypto/sha256"
	"encoding/hex"
	"encoding/json"
	"fmt"
	"sort"
	"strings"
	"time"
)

// RunResult is the outcome of one run (one tape).
type RunResult struct {
	Violations []Violation
	Scenario   any      // decoded, human-readable scenario
	Trace      []string // canonical event trace
	TraceHash  string
	Harness    string // non-empty: harness problem (exit 2), never a verdict
	Nontrivial bool
	ShapeKey   string
}

// PropDef binds a property id to its runner.
type PropDef struct {
	ID  string
	Run func(t *Tape, st *Stats, tier string) *RunResult
}

var propDefs = map[string]*PropDef{}

func registerProp(p *PropDef) { propDefs[p.ID] = p }

func traceHash(tr []string) string {
	h := sha256.New()
	for _, l := range tr {
		h.Write([]byte(l))
		h.Write([]byte{'\n'})
	}
	return hex.EncodeToString(h.Sum(nil))
}

func rel(t time.Time) string {
	if t.IsZero() {
		return "-"
	}
	return fmt.Sprintf("%.3fs", t.Sub(Epoch).Seconds())
}

// revTrace renders the observations of a revocation run canonically: ordered
// by (fake instant, key, kind rank); no raw signature bytes.
func revTrace(sc *RevScenario, obs *RevObs) []string {
	type ev struct {
		t    time.Time
		key  string
		rank int
		s    string
	}
	var evs []ev
	add := func(t time.Time, key string, rank int, s string) {
		evs = append(evs, ev{t, key, rank, fmt.Sprintf("t=%s %s", rel(t), s)})
	}
	for i, co := range obs.Calls {
		k := fmt.Sprintf("call%d", i)
		add(co.TStart, k, 0, fmt.Sprintf("op.invoke caller=%d.%d entry=%s chain=%d defect=%s", co.World.ID, co.Rep, entryNames[co.World.Entry], len(co.World.Certs), chainDefectNames[co.World.ChainDefect]))
		if co.Returned {
			var rs []string
			for _, r := range co.Results {
				rs = append(rs, fmtResult(r))
			}
			e := "<nil>"
			if co.Err != nil {
				e = fmt.Sprintf("%T", co.Err)
			}
			p := ""
			if co.Panicked {
				p = fmt.Sprintf(" PANIC=%v", co.PanicVal)
			}
			add(co.TReturn, k, 9, fmt.Sprintf("op.return caller=%d.%d err=%s%s results=%s", co.World.ID, co.Rep, e, p, strings.Join(rs, " ; ")))
		}
	}
	if obs.Net != nil {
		for _, x := range obs.Net.All() {
			if !x.Rec.Begun {
				continue
			}
			k := fmt.Sprintf("%s#%d", x.Key, x.Attempt)
			add(x.Rec.TBegin, k, 1, fmt.Sprintf("xchg.begin slot=%s kind=%s cert=%d method=%s fault=%s", k, x.Kind, x.CertPos, x.Rec.Method, x.Fault))
			if x.Rec.CancelledHere {
				add(x.Rec.TClosed, k, 4, fmt.Sprintf("cancel at body close of slot=%s", k))
			}
			if x.Rec.Returned {
				d := ""
				switch sv := x.Rec.Served.(type) {
				case *OCSPServed:
					d = " served=" + sv.Content.String() + fmt.Sprintf(" serial_match=%v next=%s", sv.SerialMatch, rel(sv.NextUpdate))
				case *CRLServed:
					d = fmt.Sprintf(" served=crl#%d signer=%s next=%s entries=%d", sv.Spec.Number, sv.Spec.SignerKind, rel(sv.Spec.NextUpdate), len(sv.Spec.Entries))
				}
				add(x.Rec.TReturn, k, 2, fmt.Sprintf("xchg.end slot=%s outcome=%s status=%d redirected=%v%s", k, x.Rec.Outcome, x.Rec.Status, x.Rec.Redirected, d))
			}
			if x.Rec.BodyEnd {
				// byte counts of signed bodies depend on signature encoding
				// lengths; record only whether the whole body was consumed
				add(x.Rec.TBodyEnd, k, 3, fmt.Sprintf("body.end slot=%s complete=%v unbounded=%v err=%q", k, x.Rec.BodyLen >= 0 && x.Rec.BodyRead == x.Rec.BodyLen, x.Rec.Unbounded, x.Rec.BodyErr))
			}
		}
		for _, u := range obs.Net.Unplanned {
			add(u.T, "unplanned|"+u.URL, 4, fmt.Sprintf("unplanned caller=%d %s %s", u.Caller, u.Method, u.URL))
		}
	}
	for _, f := range obs.Fetches {
		k := fmt.Sprintf("fetch|%d|%s", f.Caller, f.URL)
		add(f.TBegin, k, 5, fmt.Sprintf("fetch.begin caller=%d url=%s", f.Caller, f.URL))
		if f.Done {
			add(f.TEnd, k, 6, fmt.Sprintf("fetch.end caller=%d url=%s err=%v base=%v delta=%v", f.Caller, f.URL, f.Err != "", f.Base != "", f.Delta != ""))
		}
	}
	sort.SliceStable(evs, func(i, j int) bool {
		if !evs[i].t.Equal(evs[j].t) {
			return evs[i].t.Before(evs[j].t)
		}
		if evs[i].key != evs[j].key {
			return evs[i].key < evs[j].key
		}
		return evs[i].rank < evs[j].rank
	})
	out := make([]string, 0, len(evs)+2)
	for _, e := range evs {
		out = append(out, e.s)
	}
	if obs.BubbleErr != "" {
		out = append(out, "bubble: "+obs.BubbleErr)
	}
	for _, k := range obs.InFlight {
		out = append(out, "in-flight-at-return: "+k)
	}
	for _, k := range obs.LateEvents {
		out = append(out, "late-event: "+k)
	}
	return out
}

// describeRev renders the scenario for humans / replay files.
func describeRev(sc *RevScenario) any {
	type srcD struct {
		URL, Behaviour, Fault string
		LatencyMs             int64
	}
	type certD struct {
		Pos                 int
		Key                 string
		LongSerial, NoCRLSg bool
		SameNameAsIssuer    bool
		FreshestInCert      bool
		OCSP                []srcD
		CRL                 []map[string]any
	}
	type worldD struct {
		Caller      int
		Entry       string
		Purpose     string
		ChainDefect string
		SigningTime string
		Certs       []certD
	}
	var ws []worldD
	for _, w := range sc.Worlds {
		wd := worldD{Caller: w.ID, Entry: entryNames[w.Entry], Purpose: []string{"codesigning", "timestamping"}[w.Purpose], ChainDefect: chainDefectNames[w.ChainDefect], SigningTime: "none"}
		if w.HasST {
			wd.SigningTime = rel(w.ST)
		}
		for _, cp := range w.Certs {
			cd := certD{Pos: cp.Pos, Key: cp.KeyKind, LongSerial: cp.LongSerial, NoCRLSg: cp.NoCRLSign, SameNameAsIssuer: cp.SameName, FreshestInCert: cp.Freshest}
			for _, s := range cp.OCSP {
				cd.OCSP = append(cd.OCSP, srcD{URL: s.URL, Behaviour: s.Content.String(), Fault: s.Fault.String(), LatencyMs: s.Latency.Milliseconds()})
			}
			for _, s := range cp.CRL {
				m := map[string]any{"url": s.URL, "base": crlPlanDesc(&s.Base), "base_number": s.BaseNum, "base_fault": s.BaseFault.String(), "base_latency_ms": s.BaseLat.Milliseconds(),
					"freshest_shape": s.FrShape, "cache_seed": s.CacheSeed, "cache_get_err": s.CacheGetEr, "cache_set_err": s.CacheSetEr, "stub_err": s.StubErr, "answer_to_a_second_request": []string{"not_planned", "authentic_without_the_certificate", "authentic_revoking_it"}[s.Second]}
				if s.HasDelta {
					m["delta"] = crlPlanDesc(&s.Delta) + fmt.Sprintf("/num_off=%d/ind_kind=%d/ind_off=%d", s.Delta.NumOff, s.Delta.IndKind, s.Delta.IndOff)
					var fs []string
					for _, f := range s.DeltaFault {
						fs = append(fs, f.String())
					}
					m["delta_faults"] = fs
				}
				cd.CRL = append(cd.CRL, m)
			}
			wd.Certs = append(wd.Certs, cd)
		}
		ws = append(ws, wd)
	}
	return map[string]any{
		"profile": sc.Prof.Name, "config": []string{"fault_free", "network_faults", "byzantine", "everything"}[sc.Config],
		"caller_start_offsets_ms": sc.StaggerMs, "one_http_client_for_ocsp_and_crl": sc.SharedClient, "cancellation_applies_to_caller_only": sc.CancelOnly, "fetcher": fetcherNames[sc.Fetcher], "discard_cache_error": sc.Discard, "cache_latency_ms": sc.CacheLatency.Milliseconds(), "cache_panics_in_set": sc.PanicInSet,
		"ocsp_timeout_ms": sc.OCSPTimeout.Milliseconds(), "crl_timeout_ms": sc.CRLTimeout.Milliseconds(),
		"cancel": []string{"none", "before_call", "at", "deadline", "on_exchange_close"}[sc.Cancel], "cancel_after_ms": sc.CancelAfter.Milliseconds(),
		"cancel_exchange_selector": sc.CancelXSel, "cancel_prefers_base_crl": sc.CancelXPreferCRL,
		"sequential_history": sc.Sequential, "gaps_s": gapsSeconds(sc.Gaps), "restarts": sc.Restarts,
		"panic_at": sc.PanicAt, "panic_cert": sc.PanicCert, "panic_more_certs": sc.PanicCerts, "worlds": ws,
	}
}

// countRevStats records which faults and behaviours actually fired.
func countRevStats(sc *RevScenario, obs *RevObs, st *Stats) (fired int) {
	if obs.Net == nil {
		return 0
	}
	for _, w := range sc.Worlds {
		if len(w.RepST) > 1 {
			differ := false
			for _, k := range w.RepST[1:] {
				if k != w.RepST[0] {
					differ = true
				}
			}
			if differ {
				st.Probes["overlapping_callers_differ_in_signing_time"]++
			}
		}
	}
	for _, w := range sc.Worlds {
		for _, cp := range w.Certs {
			for _, s := range cp.CRL {
				for _, x2 := range s.XBase2 {
					if x2 != nil && x2.Rec.Begun {
						st.Probes["crl_point_asked_a_second_time"]++
					}
				}
			}
		}
	}
	for _, x := range obs.Net.All() {
		if !x.Rec.Begun {
			continue
		}
		st.Probes["exchanges"]++
		if x.Fault.Kind != FNone {
			st.Faults[faultNames[x.Fault.Kind]]++
			fired++
		}
		if x.Rec.Outcome == "ctx_done" {
			st.Faults["ctx_done_in_exchange"]++
			fired++
		}
		switch sv := x.Rec.Served.(type) {
		case *OCSPServed:
			c := sv.Content
			if x.Rec.Method == "POST" {
				st.Probes["ocsp_post"]++
			} else {
				st.Probes["ocsp_get"]++
			}
			if c.ErrStatus != 0 {
				st.Behav[fmt.Sprintf("ocsp_error_status_%d", c.ErrStatus)]++
				fired++
				break
			}
			st.Behav["ocsp_signer_"+signerNames[c.Signer]]++
			if c.NoEmbed {
				st.Behav["ocsp_unauthorised_signer_certificate_not_embedded"]++
			}
			if c.Pad != 0 {
				st.Probes["ocsp_response_size_"+[]string{"", "one_below_read_limit", "exactly_read_limit", "one_above_read_limit"}[c.Pad]]++
			}
			st.Behav["ocsp_status_"+[]string{"good", "revoked", "unknown"}[c.Status]]++
			if c.SerialKind != SrWanted {
				st.Behav["ocsp_serial_"+serialKindNames[c.SerialKind]]++
				fired++
			}
			if c.NextKind != NuNormal {
				st.Behav["ocsp_next_"+nextKindNames[c.NextKind]]++
				fired++
			}
			if c.Signer > SgDelegate {
				fired++
			}
			if c.Status == StRevoked && c.InvKind != InvNone {
				st.Behav["ocsp_invalidity_"+invNames[c.InvKind]]++
			}
		case *CRLServed:
			s := sv.Spec
			k := "crl_"
			if s.HasInd {
				k = "delta_"
			}
			st.Behav[k+"signer_"+s.SignerKind]++
			if s.SignerKind == "stale_sig" && s.ForeignSig != nil && s.ForeignTBS != s.TBSHash {
				st.Probes["crl_edited_under_earlier_genuine_signature_value"]++
			}
			if s.SignerKind != "issuer" || s.UnknownCrit || s.NextUpdate.IsZero() {
				fired++
			}
		}
	}
	for _, f := range obs.Fetches {
		st.Probes["fetch_calls"]++
		if f.Err != "" {
			st.Probes["fetch_errors"]++
		}
		if f.Delta != "" {
			st.Probes["fetch_with_delta"]++
		}
	}
	if obs.Cache != nil {
		for _, w := range sc.Worlds {
			for _, cp := range w.Certs {
				for _, s := range cp.CRL {
					for _, op := range obs.Cache.OpsOf(s.URL) {
						st.Probes["cache_"+op.Op+"_"+op.Outcome]++
						if op.Outcome == "error" {
							st.Faults["cache_"+op.Op+"_error"]++
							fired++
						}
					}
				}
			}
		}
	}
	if sc.Cancel != CancelNone {
		st.Faults[[]string{"", "cancel_before_call", "cancel_at_instant", "context_deadline", "cancel_on_exchange_close"}[sc.Cancel]]++
	}
	for _, u := range obs.Net.Unplanned {
		_ = u
		st.Probes["unplanned_exchange"]++
	}
	return fired
}

func mustJSON(v any) string {
	b, err := json.Marshal(v)
	if err != nil {
		return fmt.Sprintf("%q", err.Error())
	}
	return string(b)
}

func gapsSeconds(g []time.Duration) []float64 {
	var out []float64
	for _, d := range g {
		out = append(out, d.Seconds())
	}
	return out
}
