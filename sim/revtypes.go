package sim

import (
	"fmt"
	"math/big"
	"time"
)

// ---------- plan types of the revocation world (all drawn before the run) ----------

// OCSP signer kinds.
const (
	SgIssuer = iota
	SgDelegate
	SgSelf          // signed by the checked certificate's own key, embedding it
	SgSibling       // signed by a sibling issued by the same CA, without OCSPSigning EKU
	SgOtherCADeleg  // delegate with OCSPSigning EKU, issued by another CA
	SgUnrelated     // unrelated key, nothing embedded
	SgUnrelatedSelf // unrelated self-signed certificate embedded
	SgFlipSig
	SgFlipTBS
	SgSiblingIssuerName // sibling without OCSPSigning EKU whose subject DN equals the issuer's
	nSigners
)

var signerNames = []string{"issuer", "delegate_ok", "self_delegated", "sibling_no_eku", "delegate_other_ca", "unrelated_key", "unrelated_selfsigned_embedded", "sig_flipped", "tbs_flipped", "sibling_with_issuer_name"}

// Serial kinds of a response.
const (
	SrWanted = iota
	SrOther
	SrMultiFirst
	SrMultiLast
	SrMultiAbsent
	nSerialKinds
)

var serialKindNames = []string{"wanted", "other_only", "multi_wanted_first", "multi_wanted_last", "multi_wanted_absent"}

// nextUpdate kinds (relative to the whole second of the delivery instant).
const (
	NuNormal  = iota // +1h .. +7d
	NuPlus1          // trunc(now)+1s
	NuZero           // trunc(now)
	NuMinus1         // trunc(now)-1s
	NuExpired        // -1h
	NuAbsent
	NuPlus2
	NuPlus3
	nNextKinds
)

var nextKindNames = []string{"normal", "plus1s", "at_second", "minus1s", "expired", "absent", "plus2s", "plus3s"}

func resolveNext(kind int, now time.Time) time.Time {
	t := now.UTC().Truncate(time.Second)
	switch kind {
	case NuNormal:
		return t.Add(26 * time.Hour)
	case NuPlus1:
		return t.Add(time.Second)
	case NuPlus2:
		return t.Add(2 * time.Second)
	case NuPlus3:
		return t.Add(3 * time.Second)
	case NuZero:
		return t
	case NuMinus1:
		return t.Add(-time.Second)
	case NuExpired:
		return t.Add(-time.Hour)
	}
	return time.Time{}
}

// URL kinds.
const (
	UNormal     = iota
	UUpperHTTP  // "HTTP://host/..."
	UHTTPS      // unsupported scheme
	ULDAP       // unsupported scheme
	UNoScheme   // "host/path"
	UEmpty      // ""
	UCtrlChar   // "http://host/\x7f" : url.Parse fails
	UBadPercent // "http://host/%zz" : url.Parse fails
	UBadPort    // "http://host:port:x/" : url.Parse fails
	USpaceHost  // "http://ho st/" : url.Parse fails
	nURLKinds
)

var urlKindNames = []string{"normal", "upper_HTTP", "https", "ldap", "no_scheme", "empty", "ctrl_char", "bad_percent", "bad_port", "space_host"}

func makeURL(kind int, host, path string) string {
	switch kind {
	case UNormal:
		return "http://" + host + path
	case UUpperHTTP:
		return "HTTP://" + host + path
	case UHTTPS:
		return "https://" + host + path
	case ULDAP:
		return "ldap://" + host + path
	case UNoScheme:
		return host + path
	case UEmpty:
		return ""
	case UCtrlChar:
		return "http://" + host + path + "\x7f"
	case UBadPercent:
		return "http://" + host + path + "%zz"
	case UBadPort:
		return "http://" + host + ":80:x" + path
	case USpaceHost:
		return "http://bad " + host + path
	}
	panic("url kind")
}

// OCSPContent is what a simulated responder puts into its answer.
type OCSPContent struct {
	ErrStatus  int // 0 = successful; else OCSP error status (1,2,3,5,6)
	Status     int // StGood / StRevoked / StUnknown
	Signer     int
	SerialKind int
	NextKind   int
	Reason     int
	InvKind    int
	ByName     bool
	RevAgo     int  // revocation time = now - RevAgo hours
	InvOnAny   bool // the invalidityDate single extension is also attached to Good / Unknown answers (where it means nothing)
	NoEmbed    bool // an unauthorised signer's certificate is NOT embedded (the response names it as responder only)
	Pad        int  // response padded to an exact size: 1 one byte below the client's read limit, 2 exactly the limit, 3 one byte above
}

func (c OCSPContent) String() string {
	if c.ErrStatus != 0 {
		return fmt.Sprintf("ocsp_error_status_%d", c.ErrStatus)
	}
	st := []string{"good", "revoked", "unknown"}[c.Status]
	s := fmt.Sprintf("%s/signer=%s/serial=%s/next=%s", st, signerNames[c.Signer], serialKindNames[c.SerialKind], nextKindNames[c.NextKind])
	if c.Status == StRevoked {
		s += fmt.Sprintf("/reason=%d/inv=%s", c.Reason, invNames[c.InvKind])
	} else if c.InvOnAny {
		s += "/meaningless_inv=" + invNames[c.InvKind]
	}
	if c.NoEmbed {
		s += "/signer_certificate_not_embedded"
	}
	if c.Pad != 0 {
		s += "/size=" + []string{"", "limit-1", "limit", "limit+1"}[c.Pad]
	}
	return s
}

var invNames = []string{"none", "before_st", "equal_st", "after_st", "malformed"}

// OCSPSrc is one responder URL of a certificate.
type OCSPSrc struct {
	URL     string
	URLKind int
	Host    string
	Content OCSPContent
	Fault   Fault
	Latency time.Duration
	X       []*Exchange // per caller
}

// OCSPServed is recorded by the responder at the delivery instant.
type OCSPServed struct {
	Content     OCSPContent
	SerialMatch bool // a SingleResponse for the checked certificate's serial is present
	ReqSerialOK bool // the request named the checked certificate's serial
	ReqIssuerOK bool // the request's issuer hashes match the real issuer
	NextUpdate  time.Time
	Invalidity  time.Time
	Len         int
}

// CRLPlan is the content plan of one CRL (base or delta).
type CRLPlan struct {
	SignerKind  string
	NextKind    int
	NumberAbs   bool
	NumOff      int64 // delta: number = baseNumber + NumOff
	IndKind     int   // delta indicator: 0 present ok, 1 absent, 2 unparsable
	IndOff      int64 // indicator = baseNumber + IndOff
	IDPCritical bool
	UnknownCrit bool
	UnknownNon  bool
	EarlyThis   bool // delta: its thisUpdate lies before the base list's (a larger number all the same)
	Entries     []EntryPlan
}

// EntryPlan is one CRL entry.
type EntryPlan struct {
	Match     bool
	Reason    int // -1 absent
	RevIdx    int // revocation time index 0..2 (hours before epoch-ish)
	InvKind   int
	Crit      bool
	CritFirst bool
}

func (e EntryPlan) String() string {
	m := "other"
	if e.Match {
		m = "match"
	}
	s := fmt.Sprintf("%s/r%d/t%d/inv=%s", m, e.Reason, e.RevIdx, invNames[e.InvKind])
	if e.Crit {
		s += "/crit"
		if e.CritFirst {
			s += "_first"
		}
	}
	return s
}

// CRLSrc is one distribution point of a certificate.
type CRLSrc struct {
	URL      string
	URLKind  int
	Host     string
	Base     CRLPlan
	BaseNum  int64
	HasDelta bool // the base advertises a freshest CRL (shape FrURIs) and a delta exists
	FrShape  int
	DeltaURL []string
	Delta    CRLPlan
	// faults
	BaseFault  Fault
	BaseLat    time.Duration
	DeltaFault []Fault // per advertised location
	DeltaLat   []time.Duration
	// stub fetcher mode
	StubErr        bool
	StubExtraDelta bool // stub returns a delta although the base advertises none
	XBase          []*Exchange
	XDelta         [][]*Exchange
	Second         int         // what the distribution point answers to a SECOND request for the base within one check (a lagging mirror catching up): 0 nothing planned, 1 an authentic current list without the certificate, 2 an authentic current list that revokes it
	XBase2         []*Exchange // per caller; nil entries when nothing is planned
	// cache pre-seed (real fetcher with cache)
	CacheSeed  int // 0 none, 1 fresh authentic copy, 2 expired copy, 3 poisoned (wrong signer) fresh copy, 4 no-nextUpdate copy
	CacheGetEr bool
	CacheSetEr bool
}

// CertPlan is one certificate of the chain (index 0 = leaf).
type CertPlan struct {
	Pos        int
	KeyKind    string
	LongSerial bool
	Serial     *big.Int
	NoCRLSign  bool // CA only: key usage lacks cRLSign
	SameName   bool // intermediate CA whose subject DN equals its issuer's (key rollover: self-issued, not self-signed)
	EmptyName  bool // end-entity certificate with an empty subject DN, named by a critical subjectAltName only (RFC 5280 4.1.2.6)
	OCSP       []*OCSPSrc
	CRL        []*CRLSrc
	Freshest   bool // freshest-CRL extension in the certificate
	C          *Cert
}

// Entry points.
const (
	EValidateContext = iota
	EValidate        // deprecated New(client).Validate
	ECheckStatus     // ocsp.CheckStatus
)

var entryNames = []string{"ValidateContext", "Validate", "ocsp.CheckStatus"}

// Fetcher modes.
const (
	FetchReal = iota
	FetchRealCache
	FetchStub
)

var fetcherNames = []string{"http_fetcher", "http_fetcher+cache", "stub_fetcher"}

// Cancel kinds.
const (
	CancelNone = iota
	CancelBefore
	CancelAt // at fake duration CancelAfter after the call started
	CancelDeadline
	CancelOnXchg // exactly when the library closes the body of a chosen exchange (an exchange boundary)
)

// Invalid-chain defects (C12.R4).
const (
	ChainOK = iota
	ChainEmpty
	ChainReversed
	ChainMissingRoot
	ChainLeafIsCA
	ChainWrongPurpose
	ChainSwapped // two neighbours swapped
	ChainDupLeaf
	ChainTSALeafEKU // timestamping purpose: the leaf's extended key usage is not exactly {timeStamping} (unknown OID only / empty extension absent / extra usage)
)

var chainDefectNames = []string{"valid", "empty", "reversed", "missing_root", "leaf_is_ca", "wrong_purpose", "neighbours_swapped", "duplicate_leaf", "tsa_leaf_eku_not_timestamping_only"}

// TSA chain defects (C15). The first group is rejected by tspclient-go /
// crypto/x509, the second only by notation-core-go's own chain validation.
const (
	TDNone = iota
	TDLeafExpired
	TDLeafNotYet
	TDEKUNonCritical
	TDEKUExtra
	TDEKUUnknownExtra
	TDEKUAbsent
	TDCANoCertSign
	TDPathLen
	TDUntrustedRoot
	// only notation-core-go's ValidateTimestampingCertChain catches these
	TDLeafKUExtra
	TDLeafKUAbsent
	TDLeafNoDigSig
	TDLeafIsCA
	TDLeafRSA1024
	TDLeafP224
	TDCANoKU
	TDCAEKUExcludes // the CA's own extended key usage excludes time stamping (rejected by crypto/x509 path validation)
	nTSADefects
)

var tsaDefectNames = []string{"none", "leaf_expired", "leaf_not_yet_valid", "eku_non_critical", "eku_extra_codesigning", "eku_extra_unknown_oid", "eku_absent",
	"ca_without_certsign", "path_length_too_small", "untrusted_root",
	"leaf_keyusage_extra_bits", "leaf_keyusage_absent", "leaf_without_digital_signature", "leaf_is_ca", "leaf_rsa1024", "leaf_p224", "ca_without_keyusage_ext", "ca_eku_excludes_timestamping"}

func tsaDefectOnlyCore(d int) bool { return d >= TDLeafKUExtra && d != TDCAEKUExcludes }
