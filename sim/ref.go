package sim

import (
	"math/big"
	"time"
)

// Evidence classes by construction (DESIGN section 4.1).
const (
	ClNotContacted = "NOT_CONTACTED"
	ClGood         = "GOOD"
	ClGoodByInv    = "GOOD_BY_INVALIDITY"
	ClRevoked      = "REVOKED"
	ClUnknownSt    = "UNKNOWN_STATUS"
	ClNone         = "NONE"
	ClEither       = "EITHER"   // the statement does not say which side a boundary instant falls on
	ClDontCare     = "DONTCARE" // the statement is silent on this shape
	ClNotOK        = "NOT_OK"   // CRL: matching entry with unknown critical extension: Unknown, or Revoked if another entry revokes
	ClNotOKRev     = "NOT_OK_OR_REVOKED"
)

func isGoodClass(c string) bool { return c == ClGood || c == ClGoodByInv }

// deliveredBody tells whether the exchange delivered its complete, unmodified
// body, and at which instant the reader saw the end of it.
func deliveredBody(x *Exchange) (ok bool, at time.Time) {
	r := &x.Rec
	if !r.Begun || r.Outcome != "response" {
		return false, time.Time{}
	}
	switch x.Fault.Kind {
	case FNone, FRedirect, FBodyStall, FCloseErr:
	case FLyingCL:
		// the whole body is sent and THEN the connection drops: a reader that
		// stops exactly at the last byte holds the complete answer and never
		// learns of the drop
		if r.BodyEnd || r.BodyErr != "" {
			return false, time.Time{}
		}
	default:
		return false, time.Time{}
	}
	// the whole body must have reached the reader without error: it saw the
	// end, or it took every byte and then closed the body (a reader that limits
	// itself to exactly the body's length never asks for the end marker)
	if r.BodyErr != "" || r.BodyRead != r.BodyLen || !(r.BodyEnd || r.Closed) {
		return false, time.Time{}
	}
	if r.Redirected && x.Fault.Kind != FRedirect {
		return false, time.Time{}
	}
	if r.Status != 200 && !(x.Fault.Kind == FRedirect && r.Redirected) {
		return false, time.Time{}
	}
	at = r.TReturn
	if r.BodyEnd {
		at = r.TBodyEnd
	} else if r.Closed {
		at = r.TClosed
	}
	return true, at
}

// ocspClass classifies what one OCSP exchange delivered.
func ocspClass(w *World, cp *CertPlan, x *Exchange) string {
	if !x.Rec.Begun {
		return ClNotContacted
	}
	ok, at := deliveredBody(x)
	if !ok {
		return ClNone
	}
	sv, _ := x.Rec.Served.(*OCSPServed)
	if sv == nil {
		return ClNone
	}
	c := sv.Content
	if c.ErrStatus != 0 {
		return ClNone
	}
	if c.Signer != SgIssuer && c.Signer != SgDelegate {
		return ClNone
	}
	if !sv.SerialMatch {
		return ClNone
	}
	if sv.NextUpdate.IsZero() {
		return ClNone
	}
	if at.After(sv.NextUpdate) {
		return ClNone
	}
	boundary := at.Equal(sv.NextUpdate)
	var cl string
	switch c.Status {
	case StGood:
		cl = ClGood
	case StUnknown:
		cl = ClUnknownSt
	default:
		cl = ClRevoked
		switch c.InvKind {
		case InvBefore, InvEqual, InvAfter:
			if w.HasST && sv.Invalidity.After(w.ST) {
				cl = ClGoodByInv
			}
		case InvMalformed:
			cl = ClRevoked
		}
	}
	if boundary {
		return ClEither
	}
	return cl
}

// crlListOK applies the C05 list-level conditions to one CRL at instant now.
// It returns "ok", "none" or "either".
func crlListOK(s *CRLSpec, issuerHasCRLSign bool, now time.Time) string {
	if s == nil {
		return "none"
	}
	if s.SignerKind != "issuer" || !issuerHasCRLSign {
		return "none"
	}
	if s.NextUpdate.IsZero() {
		return "none"
	}
	if now.After(s.NextUpdate) {
		return "none"
	}
	if s.UnknownCrit {
		return "none"
	}
	if now.Equal(s.NextUpdate) {
		return "either"
	}
	return "ok"
}

// crlEntriesClass is the C10 reference interpreter over base then delta entries.
func crlEntriesClass(base, delta *CRLSpec, serial *big.Int, hasST bool, st time.Time) string {
	// matching is decided by the serial number in the list, not by what the
	// list was generated for: a cached CRL may be consulted for another
	// certificate of the same CA
	var m []CRLEntrySpec
	for _, e := range base.Entries {
		if e.Serial != nil && serial != nil && e.Serial.Cmp(serial) == 0 {
			m = append(m, e)
		}
	}
	if delta != nil {
		for _, e := range delta.Entries {
			if e.Serial != nil && serial != nil && e.Serial.Cmp(serial) == 0 {
				m = append(m, e)
			}
		}
	}
	crit, malformed := false, false
	var counting []CRLEntrySpec
	for _, e := range m {
		if e.CriticalExt {
			crit = true
			continue
		}
		if e.InvKind == InvMalformed {
			malformed = true
			continue
		}
		if hasST && e.InvKind != InvNone && e.Invalidity.After(st) {
			continue
		}
		counting = append(counting, e)
	}
	if malformed {
		return ClDontCare
	}
	verdict := ClGood
	perm := false
	var latest *CRLEntrySpec
	tie := false
	for i := range counting {
		e := &counting[i]
		if e.Reason != 6 && e.Reason != 8 {
			perm = true
			continue
		}
		switch {
		case latest == nil || e.RevTime.After(latest.RevTime):
			latest, tie = e, false
		case e.RevTime.Equal(latest.RevTime) && e.Reason != latest.Reason:
			tie = true
		}
	}
	switch {
	case perm:
		verdict = ClRevoked
	case latest == nil:
		verdict = ClGood
	case tie:
		verdict = ClEither
	case latest.Reason == 6:
		verdict = ClRevoked
	}
	if crit {
		// "rules out OK (the answer is Unknown, or Revoked when another entry
		// revokes the certificate)"
		if verdict == ClRevoked || verdict == ClEither {
			return ClNotOKRev
		}
		return ClNotOK
	}
	return verdict
}

// crlBundleClass classifies a delivered bundle (Appendix A.1).
func crlBundleClass(base, delta *CRLSpec, serial *big.Int, certHasFreshest bool, issuerHasCRLSign bool, hasST bool, st time.Time, now time.Time) string {
	if base == nil {
		return ClNone
	}
	if certHasFreshest && delta == nil {
		return ClNone
	}
	if base.advertises() && delta == nil {
		// the base CRL points at a delta CRL that the bundle does not carry:
		// the evidence is incomplete (the fetcher must never deliver this)
		return ClNone
	}
	either := false
	switch crlListOK(base, issuerHasCRLSign, now) {
	case "none":
		return ClNone
	case "either":
		either = true
	}
	if delta != nil {
		switch crlListOK(delta, issuerHasCRLSign, now) {
		case "none":
			return ClNone
		case "either":
			either = true
		}
		if base.Number < 0 || delta.Number < 0 {
			return ClNone
		}
		if delta.Number <= base.Number {
			return ClNone
		}
		if !delta.HasInd || delta.IndBad || delta.Indicator > base.Number {
			return ClNone
		}
	}
	cl := crlEntriesClass(base, delta, serial, hasST, st)
	if either && cl != ClDontCare {
		// at the boundary instant the bundle may count as expired (NONE) or not
		return ClEither
	}
	return cl
}
