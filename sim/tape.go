package sim

import (
	"math/rand/v2"
)

// Tape is the single source of every random choice of one run. All draws happen
// before the library under test is called. In generate mode draws come from a
// PCG seeded from (base seed, run index) and are logged; in replay mode draws
// are read back from a recorded list, and a tape that runs out yields 0 (by
// convention 0 is always the simplest alternative, which is what makes generic
// delta-debugging of tapes work).
type Tape struct {
	rng    *rand.Rand
	replay []uint32
	pos    int
	Log    []uint32
}

func mix(a, b uint64) uint64 {
	x := a*0x9E3779B97F4A7C15 ^ (b + 0xBF58476D1CE4E5B9)
	x ^= x >> 30
	x *= 0xBF58476D1CE4E5B9
	x ^= x >> 27
	x *= 0x94D049BB133111EB
	x ^= x >> 31
	return x
}

func NewTape(base uint64, run uint64) *Tape {
	return &Tape{rng: rand.New(rand.NewPCG(mix(base, run), mix(run, base^0xA5A5A5A5)))}
}

func ReplayTape(vals []uint32) *Tape {
	return &Tape{replay: vals}
}

// Choose returns a value in [0,n). n<=1 returns 0 but still consumes a draw so
// that tape positions stay aligned when a bound changes during shrinking.
func (t *Tape) Choose(n int) int {
	var v uint32
	if t.rng != nil {
		if n > 1 {
			v = uint32(t.rng.IntN(n))
		}
	} else {
		if t.pos < len(t.replay) {
			v = t.replay[t.pos]
		}
		t.pos++
		if n <= 1 {
			v = 0
		} else if int(v) >= n {
			v = uint32(int(v) % n)
		}
	}
	t.Log = append(t.Log, v)
	return int(v)
}

// Weighted picks index i with probability w[i]/sum(w). Index 0 should be the
// simplest alternative.
func (t *Tape) Weighted(w ...int) int {
	sum := 0
	for _, x := range w {
		sum += x
	}
	if t.rng != nil {
		r := t.rng.IntN(sum)
		for i, x := range w {
			if r < x {
				t.Log = append(t.Log, uint32(i))
				return i
			}
			r -= x
		}
		panic("unreachable")
	}
	// replay: the log stores the index itself
	v := 0
	if t.pos < len(t.replay) {
		v = int(t.replay[t.pos])
	}
	t.pos++
	if v >= len(w) {
		v = v % len(w)
	}
	if w[v] == 0 { // alternative disabled: fall back to first enabled
		v = 0
		for i, x := range w {
			if x > 0 {
				v = i
				break
			}
		}
	}
	t.Log = append(t.Log, uint32(v))
	return v
}

// Bool is true with probability pct/100. False (0) is the simple alternative.
func (t *Tape) Bool(pct int) bool {
	return t.Weighted(100-pct, pct) == 1
}

// Range returns a value in [lo,hi].
func (t *Tape) Range(lo, hi int) int {
	return lo + t.Choose(hi-lo+1)
}
