package sim

import (
	"fmt"
	"math/big"
	"net/url"
	"strings"
	"time"

	"github.com/notaryproject/notation-core-go/revocation/result"
)

// SrcView is what one source delivered to one certificate check, as a set of
// alternative evidence classes (more than one only where the statement leaves
// a choice; nil = the statement is silent, rules become vacuous).
type SrcView struct {
	URL       string
	Contacted bool // an HTTP exchange or Fetch call happened
	NoNetwork bool // the URL string cannot be contacted by a conforming library (scheme/parse)
	Alts      []string
	Vacuous   bool
	Desc      string
	TBegin    time.Time
	Shared    bool // an alternative stems from an overlapping caller's exchange with the same responder
}

func containsStr(l []string, s string) bool {
	for _, x := range l {
		if x == s {
			return true
		}
	}
	return false
}

// CertView joins plan, deliveries and the library's answer for one certificate.
type CertView struct {
	W      *World
	CP     *CertPlan
	IsRoot bool
	Res    *result.CertRevocationResult
	OCSP   []*SrcView
	CRL    []*SrcView
	UsesCR bool // the entry point consults CRLs
}

// urlContactable tells whether a URL string names a plain-HTTP location at
// all: it parses (net/url, standard library) and its scheme is http in any
// letter case. This is decided from the string itself, not from the kind the
// generator meant to produce (a "%zz" lands harmlessly in a query string).
func urlContactable(u string) bool {
	p, err := url.Parse(u)
	return err == nil && strings.EqualFold(p.Scheme, "http") && p.Host != ""
}

func (sc *RevScenario) buildViews(obs *RevObs, co *CallObs) []*CertView {
	w := co.World
	reg := map[string]*CRLSpec{}
	// provenance: which URLs handed out a CRL with these exact bytes (two
	// distribution points may legitimately serve byte-identical CRLs)
	origins := map[string]map[string]bool{}
	addOrigin := func(sp *CRLSpec) {
		if sp == nil || sp.Origin == "" {
			return
		}
		if origins[sp.Hash] == nil {
			origins[sp.Hash] = map[string]bool{}
		}
		origins[sp.Hash][sp.Origin] = true
	}
	for _, v := range w.crlReg {
		reg[v.Hash] = v
		addOrigin(v)
	}
	if w.CloneOf != nil {
		for _, v := range w.CloneOf.crlReg {
			reg[v.Hash] = v
			addOrigin(v)
		}
	}
	for _, x := range obs.Net.All() {
		if cs, ok := x.Rec.Served.(*CRLServed); ok && cs != nil {
			reg[cs.Spec.Hash] = cs.Spec
			addOrigin(cs.Spec)
		}
	}
	fetchByURL := map[string][]*FetchRec{}
	for _, f := range obs.Fetches {
		if f.Caller == w.callerKeyOf(co.Rep) {
			fetchByURL[f.URL] = append(fetchByURL[f.URL], f)
		}
		for _, s := range f.Specs {
			reg[s.Hash] = s
			addOrigin(s)
		}
	}
	var views []*CertView
	n := len(w.Certs)
	for pos, cp := range w.Certs {
		v := &CertView{W: w, CP: cp, IsRoot: pos == n-1, UsesCR: w.Entry != ECheckStatus}
		if co.Results != nil && pos < len(co.Results) {
			v.Res = co.Results[pos]
		}
		for _, s := range cp.OCSP {
			sv := &SrcView{URL: s.URL, Desc: s.Content.String() + "/fault=" + s.Fault.String() + "/url=" + urlKindNames[s.URLKind]}
			x := s.X[co.Rep]
			sv.Contacted = x.Rec.Begun
			sv.TBegin = x.Rec.TBegin
			if !urlContactable(s.URL) {
				sv.NoNetwork = true
				sv.Alts = []string{ClNone}
			} else if v.IsRoot {
				sv.Alts = []string{ClNotContacted}
			} else {
				sv.Alts = ocspAlts(w, cp, x)
				if !x.Rec.Begun {
					// The statement asks that SOME configured responder returned
					// the answer: an answer another caller of the same chain
					// obtained while this validation was running may be shared
					// (in-flight de-duplication), judged under THIS caller's
					// signing time. It then counts as this caller's delivery.
					for rep, ox := range s.X {
						if rep == co.Rep || ox == nil || !ox.Rec.Begun || !co.Returned {
							continue
						}
						if ox.Rec.TBegin.After(co.TReturn) {
							continue
						}
						if exchangeEnd(ox, obs).Before(co.TStart) {
							continue
						}
						for _, a := range ocspAlts(w, cp, ox) {
							if a != ClNotContacted && !containsStr(sv.Alts, a) {
								sv.Alts = append(sv.Alts, a)
								sv.Shared = true
							}
						}
					}
				}
			}
			v.OCSP = append(v.OCSP, sv)
		}
		hasCRLSign := true
		if pos < n-1 {
			hasCRLSign = !w.Certs[pos+1].NoCRLSign
		}
		for _, s := range cp.CRL {
			sv := &SrcView{URL: s.URL, Desc: fmt.Sprintf("base=%s delta=%v fault=%s url=%s", crlPlanDesc(&s.Base), s.HasDelta, s.BaseFault, urlKindNames[s.URLKind])}
			if v.IsRoot {
				// a Fetch call for this URL string counts against the root only if
				// no other certificate of the chain names the same string (hostile
				// URL strings such as "" repeat)
				shared := false
				for _, ocp := range w.Certs[:n-1] {
					for _, os := range ocp.CRL {
						if os.URL == s.URL {
							shared = true
						}
					}
				}
				sv.Contacted = s.XBase[co.Rep].Rec.Begun || (!shared && len(fetchByURL[s.URL]) > 0)
				sv.Alts = []string{ClNotContacted}
				v.CRL = append(v.CRL, sv)
				continue
			}
			frs := fetchByURL[s.URL]
			switch {
			case len(frs) > 0:
				sv.Contacted = true
				sv.TBegin = frs[0].TBegin
				// a distribution point asked more than once within the check
				// (a retry) may be judged by any of its answers
				var union []string
				for _, fr := range frs {
					sv.Alts = nil
					switch {
					case !fr.Done:
						sv.Alts = []string{ClNone}
					case fr.Err != "":
						sv.Alts = []string{ClNone}
					default:
						base, delta := reg[fr.Base], (*CRLSpec)(nil)
						if fr.Delta != "" {
							delta = reg[fr.Delta]
							if delta == nil {
								sv.Vacuous = true
							}
						}
						if base == nil {
							sv.Vacuous = true
						}
						if !sv.Vacuous && len(origins[base.Hash]) > 0 && !origins[base.Hash][s.URL] {
							// provenance: evidence for this distribution point must have
							// been obtained from it (now, or earlier and kept under its
							// URL), not from another URL that merely looks similar
							sv.Alts = []string{ClNone}
							sv.Desc += " [delivered bundle was obtained from " + base.Origin + ", not from this distribution point]"
						} else if !sv.Vacuous {
							sv.Alts = crlAlts(base, delta, cp.Serial, cp.Freshest, hasCRLSign, w.HasST, w.ST, fr.TEnd)
							if sv.Alts == nil {
								sv.Vacuous = true
							}
						}
					}
					for _, a := range sv.Alts {
						if !containsStr(union, a) {
							union = append(union, a)
						}
					}
				}
				if !sv.Vacuous {
					sv.Alts = union
				}
			case w.Entry == EValidate:
				// no decorator: derive the delivered bundle from the exchanges
				xb := s.XBase[co.Rep]
				sv.Contacted = xb.Rec.Begun
				sv.TBegin = xb.Rec.TBegin
				if !urlContactable(s.URL) {
					sv.NoNetwork = true
					sv.Alts = []string{ClNone}
					break
				}
				if !xb.Rec.Begun {
					sv.Alts = []string{ClNotContacted}
					break
				}
				ok, at := deliveredBody(xb)
				if !ok {
					sv.Alts = []string{ClNone}
					break
				}
				base := xb.Rec.Served.(*CRLServed).Spec
				var delta *CRLSpec
				_, urls, parseOK := freshestValue(s.FrShape, s.DeltaURL)
				if !parseOK {
					sv.Vacuous = true
					break
				}
				failed := false
				if len(urls) > 0 {
					failed = true
					for j := range urls {
						xd := s.XDelta[j][co.Rep]
						if !xd.Rec.Begun {
							if !urlContactable(urls[j]) {
								continue // a non-HTTP location is skipped without any exchange
							}
							break
						}
						okd, atd := deliveredBody(xd)
						if okd {
							delta = xd.Rec.Served.(*CRLServed).Spec
							at = atd
							failed = false
							break
						}
						if xd.Rec.Returned {
							at = xd.Rec.TReturn
						}
					}
				}
				if failed {
					sv.Alts = []string{ClNone}
					break
				}
				sv.Alts = crlAlts(base, delta, cp.Serial, cp.Freshest, hasCRLSign, w.HasST, w.ST, at)
				if sv.Alts == nil {
					sv.Vacuous = true
				}
			default:
				sv.Alts = []string{ClNotContacted}
			}
			v.CRL = append(v.CRL, sv)
		}
		views = append(views, v)
	}
	return views
}

func crlPlanDesc(p *CRLPlan) string {
	var es []string
	for _, e := range p.Entries {
		if e.Match {
			es = append(es, e.String())
		}
	}
	s := fmt.Sprintf("signer=%s/next=%s", p.SignerKind, nextKindNames[p.NextKind])
	if p.UnknownCrit {
		s += "/unknown_critical_ext"
	}
	if p.NumberAbs {
		s += "/no_number"
	}
	if p.EarlyThis {
		s += "/this_update_before_base"
	}
	if len(es) > 0 {
		s += "/entries=[" + strings.Join(es, ",") + "]"
	}
	return s
}

// ocspAlts turns the class of an exchange into alternatives.
func ocspAlts(w *World, cp *CertPlan, x *Exchange) []string {
	cl := ocspClass(w, cp, x)
	switch cl {
	case ClEither:
		// boundary instant: recompute the class as if current
		sv := x.Rec.Served.(*OCSPServed)
		saved := sv.NextUpdate
		sv.NextUpdate = saved.Add(time.Second)
		under := ocspClass(w, cp, x)
		sv.NextUpdate = saved
		return []string{under, ClNone}
	case ClDontCare:
		return nil
	}
	return []string{cl}
}

// crlAlts turns a delivered bundle into alternatives.
func crlAlts(base, delta *CRLSpec, serial *big.Int, certFreshest, hasCRLSign, hasST bool, st, now time.Time) []string {
	cl := crlBundleClass(base, delta, serial, certFreshest, hasCRLSign, hasST, st, now)
	expand := func(c string) []string {
		switch c {
		case ClNotOK:
			return []string{ClNone}
		case ClNotOKRev:
			return []string{ClNone, ClRevoked}
		case ClEither: // hold/remove tie
			return []string{ClGood, ClRevoked}
		case ClDontCare:
			return nil
		}
		return []string{c}
	}
	if cl != ClEither {
		return expand(cl)
	}
	// EITHER: boundary and/or tie. Recompute just before the boundary.
	under := crlBundleClass(base, delta, serial, certFreshest, hasCRLSign, hasST, st, now.Add(-time.Millisecond))
	bBoundary := crlListOK(base, hasCRLSign, now) == "either" || (delta != nil && crlListOK(delta, hasCRLSign, now) == "either")
	alts := expand(under)
	if alts == nil {
		return nil
	}
	if bBoundary {
		alts = append(alts, ClNone)
	}
	return alts
}

// exchangeEnd is the instant at which an exchange was over for its caller.
func exchangeEnd(x *Exchange, obs *RevObs) time.Time {
	t := x.Rec.TBegin
	for _, c := range []time.Time{x.Rec.TReturn, x.Rec.TBodyEnd, x.Rec.TClosed} {
		if c.After(t) {
			t = c
		}
	}
	return t
}
