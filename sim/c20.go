package sim

import (
	"bytes"
	"context"
	"crypto/x509"
	"encoding/base64"
	"encoding/json"
	"errors"
	"fmt"
	"net/http"
	"sort"
	"strings"
	"time"

	"github.com/fxamacker/cbor/v2"
	"github.com/notaryproject/notation-core-go/signature"
	"github.com/notaryproject/tspclient-go"
)

// ---------- C20: histories on one envelope object ----------

// Operation kinds.
const (
	EOSignOK = iota
	EOSignFailEarly
	EOSignFailSigner
	EOSignFailLate
	EOSignFailTSA
	EOVerify
	EOContent
	EOReparse // parse the bytes the object was parsed from once more (a second object) and observe THAT object
	nEnvOps
)

var envOpNames = []string{"sign_valid", "sign_invalid_request", "sign_signer_fails", "sign_chain_invalid_at_signing_time", "sign_tsa_fails", "verify", "content", "reparse_original_bytes"}

type c20Op struct {
	Kind      int
	Req       int // 0 = request A, 1 = request B
	Remote    bool
	WithTSA   bool // valid sign with a (valid) timestamp
	EarlyHow  int  // 0 empty payload, 1 no signing time, 2 expiry before signing time, 3 nil signer, 4 no scheme, 5 payload not JSON (jws)
	CtxDone   bool // the request carries an already cancelled context (WithContext)
	Reenter   bool // sign failing late: its remote signer re-entrantly signs the other request successfully on the same object
	SignerHow int  // RSError / RSNoCerts / RSKeySpecError
	LateHow   int  // 0 signing time before notBefore, 1 after notAfter
	TSAHow    int  // 0 rejection, 1 connection error, 2 corrupted signature, 3 stub timestamper error
	// Retry: the caller's retry loop - the request keeps the Signer object and
	// the signing time of the preceding signing attempt (if that was for the
	// same request) but carries another attribute value, agent and expiry
	Retry bool
	// SlowCancel: the remote signer takes 50 ms (fake) and the request's context
	// ends after 10 ms, in the middle of it; afterwards the history waits 100 ms
	SlowCancel bool
}

type c20Scenario struct {
	Format   int
	Start    int // 0 new, 1 parsed valid, 2 parsed tampered, 3 parsed from a third party's re-encoding (unprotected part reshaped)
	Reshape  int // start 3: which reshaping
	StartReq int
	KeyA     string
	KeyB     string
	Ops      []c20Op
	PayA     int // payload variants (top-level members with JWT claim names)
	PayB     int
}

func genC20(t *Tape) *c20Scenario {
	sc := &c20Scenario{}
	sc.Format = t.Choose(2)
	sc.Start = t.Weighted(45, 28, 17, 10)
	sc.Reshape = t.Choose(6)
	sc.StartReq = t.Choose(2)
	sc.KeyA = signKeyKinds[t.Weighted(55, 10, 5, 20, 7, 3)]
	sc.KeyB = signKeyKinds[t.Weighted(55, 10, 5, 20, 7, 3)]
	sc.PayA = t.Weighted(60, 8, 8, 8, 8, 8)
	sc.PayB = t.Weighted(60, 8, 8, 8, 8, 8)
	n := 1 + t.Weighted(8, 18, 22, 22, 18, 12)
	for i := 0; i < n; i++ {
		op := c20Op{}
		op.Kind = t.Weighted(18, 8, 10, 16, 8, 22, 18, 6)
		if op.Kind == EOReparse && sc.Start == 0 {
			op.Kind = EOContent
		}
		op.Req = t.Choose(2)
		op.Remote = t.Bool(40)
		op.WithTSA = t.Bool(20)
		op.EarlyHow = t.Choose(10)
		op.Reenter = t.Bool(15)
		op.CtxDone = t.Bool(10)
		op.SignerHow = 1 + t.Choose(3)
		op.LateHow = t.Choose(2)
		op.TSAHow = t.Choose(4)
		op.Retry = t.Bool(25)
		op.SlowCancel = t.Bool(12)
		if op.Kind == EOSignFailSigner {
			op.Remote = true
		}
		sc.Ops = append(sc.Ops, op)
	}
	return sc
}

// canonContent renders an EnvelopeContent canonically. Signature bytes and
// the timestamp token are rendered as hashes in a separate string.
func canonContent(c *signature.EnvelopeContent) (content string, sigs string) {
	var parts []string
	parts = append(parts, "payload="+canonJSON(c.Payload.Content), "ct="+c.Payload.ContentType)
	sa := c.SignerInfo.SignedAttributes
	parts = append(parts, "scheme="+string(sa.SigningScheme), fmt.Sprintf("time=%d", unixOrZero(sa.SigningTime)), fmt.Sprintf("expiry=%d", unixOrZero(sa.Expiry)))
	var attrs []string
	for _, a := range sa.ExtendedAttributes {
		attrs = append(attrs, fmt.Sprintf("%v|%v|%v", a.Key, a.Critical, a.Value))
	}
	sort.Strings(attrs)
	parts = append(parts, "attrs=["+strings.Join(attrs, ",")+"]", "agent="+c.SignerInfo.UnsignedAttributes.SigningAgent, fmt.Sprintf("alg=%d", c.SignerInfo.SignatureAlgorithm))
	var ch []string
	for _, x := range c.SignerInfo.CertificateChain {
		ch = append(ch, hashHex(x.Raw))
	}
	parts = append(parts, "chain="+strings.Join(ch, ","))
	return strings.Join(parts, ";"), "sig=" + hashHex(c.SignerInfo.Signature) + ";ts=" + hashHex(c.SignerInfo.UnsignedAttributes.TimestampSignature)
}

func unixOrZero(t time.Time) int64 {
	if t.IsZero() {
		return 0
	}
	return t.Unix()
}

func canonJSON(b []byte) string {
	var v any
	if err := json.Unmarshal(b, &v); err != nil {
		return "raw:" + hashHex(b)
	}
	out, _ := json.Marshal(v)
	return string(out)
}

// c20Req is one of the two valid requests.
type c20Req struct {
	Name    string
	Payload []byte
	Chain   *SignerChain
	Scheme  signature.SigningScheme
	Attr    signature.Attribute
	Agent   string
	Expiry  bool
}

// expectFor is expect for the payload a request actually carried (an injected
// request defect may have altered it; if such a request is signed after all,
// the envelope must still say what was asked for).
func (r *c20Req) expectFor(payload []byte, signingTime time.Time, expiry time.Time) string {
	saved := r.Payload
	r.Payload = payload
	defer func() { r.Payload = saved }()
	return r.expect(signingTime, expiry)
}

func (r *c20Req) expect(signingTime time.Time, expiry time.Time) string {
	alg := map[string]int{"rsa2048": int(signature.AlgorithmPS256), "rsa3072": int(signature.AlgorithmPS384), "rsa4096": int(signature.AlgorithmPS512),
		"ec256": int(signature.AlgorithmES256), "ec384": int(signature.AlgorithmES384), "ec521": int(signature.AlgorithmES512)}[r.Chain.Leaf.Key.Kind]
	var ch []string
	for _, x := range r.Chain.Certs {
		ch = append(ch, hashHex(x.Raw))
	}
	parts := []string{"payload=" + canonJSON(r.Payload), "ct=" + payloadContentType, "scheme=" + string(r.Scheme),
		fmt.Sprintf("time=%d", signingTime.Truncate(time.Second).Unix()), fmt.Sprintf("expiry=%d", unixOrZero(expiry.Truncate(time.Second))),
		fmt.Sprintf("attrs=[%v|%v|%v]", r.Attr.Key, r.Attr.Critical, r.Attr.Value), "agent=" + r.Agent, fmt.Sprintf("alg=%d", alg), "chain=" + strings.Join(ch, ",")}
	return strings.Join(parts, ";")
}

// machine states
type c20State struct {
	Kind    string    // "empty" | "holds" | "parsed" | "tampered" | "foreign"
	Seen    [2]string // foreign: what verify / content showed first ("" = not yet observed)
	Content string    // canonical expected content (holds / parsed)
	Sigs    string    // signature + timestamp hashes once known ("" = any)
	Payload string    // tampered: canonical tampered payload
	Label   string
}

type c20Obs struct {
	Log       []string
	Viol      []Violation
	BubbleErr string
	Harness   string
	TEnd      time.Time
	Ante      map[string]bool
	Fired     int
}

func execC20(sc *c20Scenario, st *Stats) (obs *c20Obs) {
	obs = &c20Obs{Ante: map[string]bool{}}
	defer func() {
		if r := recover(); r != nil {
			obs.BubbleErr = fmt.Sprint(r)
		}
	}()
	runBubble(func() { sc.exec(obs, st) })
	return obs
}

func tamperEnvelope(format int, b []byte, newPayload []byte) ([]byte, error) {
	if format == 0 {
		var m map[string]json.RawMessage
		if err := json.Unmarshal(b, &m); err != nil {
			return nil, err
		}
		p, _ := json.Marshal(base64.RawURLEncoding.EncodeToString(newPayload))
		m["payload"] = p
		return json.Marshal(m)
	}
	var tagged cbor.RawTag
	if err := cbor.Unmarshal(b, &tagged); err != nil {
		return nil, err
	}
	var arr []cbor.RawMessage
	if err := cbor.Unmarshal(tagged.Content, &arr); err != nil {
		return nil, err
	}
	np, err := cbor.Marshal(newPayload)
	if err != nil {
		return nil, err
	}
	arr[2] = np
	content, err := cbor.Marshal(arr)
	if err != nil {
		return nil, err
	}
	return cbor.Marshal(cbor.RawTag{Number: 18, Content: content})
}

var reshapeNames = [2][]string{
	{"x5c_leaf_only", "unknown_header_member", "x5c_as_string", "x5c_removed", "x5c_plus_undecodable_element", "x5c_plus_garbage_certificate"},
	{"x5chain_single_bstr", "x5chain_leaf_only_array", "unknown_header_label", "x5chain_single_bstr+unknown_label", "x5chain_plus_non_bstr_element", "x5chain_plus_garbage_certificate"},
}

// reshapeEnvelope re-encodes the UNPROTECTED part of an envelope the way a
// third-party producer or a relaying registry might: the signed part and the
// signature value stay as they are. What the library makes of the result is
// not prescribed here; that it makes the same of it every time is.
func reshapeEnvelope(format int, b []byte, kind int) ([]byte, error) {
	if format == 0 {
		var m map[string]json.RawMessage
		if err := json.Unmarshal(b, &m); err != nil {
			return nil, err
		}
		var h map[string]json.RawMessage
		if err := json.Unmarshal(m["header"], &h); err != nil {
			return nil, err
		}
		var x5c []string
		if err := json.Unmarshal(h["x5c"], &x5c); err != nil || len(x5c) == 0 {
			return nil, fmt.Errorf("reshape: x5c: %v", err)
		}
		switch kind {
		case 0:
			h["x5c"], _ = json.Marshal(x5c[:1])
		case 1:
			h["x-sim-relay"] = json.RawMessage(`"1"`)
		case 2:
			h["x5c"], _ = json.Marshal(x5c[0])
		case 4:
			h["x5c"], _ = json.Marshal(append(append([]string(nil), x5c...), "!!! not base64 !!!"))
		case 5:
			h["x5c"], _ = json.Marshal(append(append([]string(nil), x5c...), base64.StdEncoding.EncodeToString([]byte("certainly not a certificate"))))
		default:
			delete(h, "x5c")
		}
		m["header"], _ = json.Marshal(h)
		return json.Marshal(m)
	}
	var tagged cbor.RawTag
	if err := cbor.Unmarshal(b, &tagged); err != nil {
		return nil, err
	}
	var arr []cbor.RawMessage
	if err := cbor.Unmarshal(tagged.Content, &arr); err != nil {
		return nil, err
	}
	var un map[any]any
	if err := cbor.Unmarshal(arr[1], &un); err != nil {
		return nil, err
	}
	var key any
	for k := range un {
		switch v := k.(type) {
		case int64:
			if v == 33 {
				key = k
			}
		case uint64:
			if v == 33 {
				key = k
			}
		}
	}
	chain, _ := un[key].([]any)
	if key == nil || len(chain) == 0 {
		return nil, fmt.Errorf("reshape: no x5chain array in the unprotected header")
	}
	switch kind {
	case 0:
		un[key] = chain[0]
	case 1:
		un[key] = chain[:1]
	case 2:
		un[int64(9999)] = "x"
	case 4:
		un[key] = append(append([]any(nil), chain...), "not a byte string")
	case 5:
		un[key] = append(append([]any(nil), chain...), []byte("certainly not a certificate"))
	default:
		un[key] = chain[0]
		un[int64(9999)] = "x"
	}
	em, err := cbor.CanonicalEncOptions().EncMode()
	if err != nil {
		return nil, err
	}
	nu, err := em.Marshal(un)
	if err != nil {
		return nil, err
	}
	arr[1] = nu
	content, err := cbor.Marshal(arr)
	if err != nil {
		return nil, err
	}
	return cbor.Marshal(cbor.RawTag{Number: 18, Content: content})
}

func (sc *c20Scenario) exec(obs *c20Obs, st *Stats) {
	ka := newKeyAllocator()
	nt := NewNet()
	nb, na := Epoch.Add(-24*time.Hour), Epoch.Add(365*24*time.Hour)
	chA, err := NewSignerChain(ka, sc.KeyA, "signerA", nb, na)
	if err != nil {
		obs.Harness = err.Error()
		return
	}
	chB, err := NewSignerChain(ka, sc.KeyB, "signerB", nb, na)
	if err != nil {
		obs.Harness = err.Error()
		return
	}
	reqs := []*c20Req{
		{Name: "A", Payload: testPayloadKind(1, sc.PayA), Chain: chA, Scheme: signature.SigningSchemeX509, Attr: signature.Attribute{Key: "io.sim.request", Critical: false, Value: "A"}, Agent: "sim-agent/A"},
		{Name: "B", Payload: testPayloadKind(2, sc.PayB), Chain: chB, Scheme: signature.SigningSchemeX509, Attr: signature.Attribute{Key: "io.sim.request", Critical: true, Value: "B"}, Agent: "sim-agent/B", Expiry: true},
	}
	// a small honest authority
	tsaRoot, err := Issue(&CertSpec{CN: "c20-tsa-root", Key: ka.get("ec256"), IsCA: true, KeyUsage: x509.KeyUsageCertSign, NotBefore: Epoch.Add(-365 * 24 * time.Hour), NotAfter: Epoch.Add(3650 * 24 * time.Hour), MaxPathLen: -1}, nil)
	if err != nil {
		obs.Harness = err.Error()
		return
	}
	tsaLeaf, err := Issue(&CertSpec{CN: "c20-tsa", Key: ka.get("ec256"), KeyUsage: x509.KeyUsageDigitalSignature, TSALeaf: true, NotBefore: Epoch.Add(-24 * time.Hour), NotAfter: Epoch.Add(3650 * 24 * time.Hour), MaxPathLen: -1}, tsaRoot)
	if err != nil {
		obs.Harness = err.Error()
		return
	}
	roots := x509.NewCertPool()
	roots.AddCert(tsaRoot.X)
	otherKey := ka.get("ec256")
	timestamper, err := tspclient.NewHTTPTimestamper(&http.Client{Transport: nt, Timeout: 5 * time.Second}, "http://tsa.c20.sim/ts")
	if err != nil {
		obs.Harness = err.Error()
		return
	}
	planTSA := func(behaviour int, f Fault) {
		nt.dropPending()
		nt.Plan(0, &Exchange{URL: "http://tsa.c20.sim/ts", Kind: "tsa", Latency: 20 * time.Millisecond, Fault: f, ReadCap: 1 << 20,
			Serve: tsaServe(behaviour, tsaLeaf, []*x509.Certificate{tsaLeaf.X}, otherKey)})
	}
	mt := mediaType(sc.Format)
	logf := func(f string, a ...any) { obs.Log = append(obs.Log, fmt.Sprintf(f, a...)) }
	fail := func(rule, sig, msg string) {
		obs.Viol = append(obs.Viol, Violation{Prop: "C20", Rule: rule, Sig: sig, Msg: msg})
	}
	ante := func(rule string) { st.RuleAnte[rule]++; obs.Ante[rule] = true }

	buildReq := func(r *c20Req, remote bool, withTSA bool) (*signature.SignRequest, *SimSigner, error) {
		now := time.Now()
		sr := &signature.SignRequest{Payload: signature.Payload{ContentType: payloadContentType, Content: append([]byte(nil), r.Payload...)}, SigningTime: now,
			SigningScheme: r.Scheme, ExtendedSignedAttributes: []signature.Attribute{r.Attr}, SigningAgent: r.Agent}
		if r.Expiry {
			sr.Expiry = now.Add(72 * time.Hour)
		}
		var ss *SimSigner
		if remote {
			ss = &SimSigner{Chain: r.Chain}
			sr.Signer = ss
		} else {
			ls, err := signature.NewLocalSigner(r.Chain.Certs, r.Chain.Leaf.Key.Priv)
			if err != nil {
				return nil, nil, err
			}
			sr.Signer = ls
		}
		if withTSA {
			sr.Timestamper = timestamper
			sr.TSARootCAs = roots
		}
		return sr, ss, nil
	}
	// ---------- initial object ----------
	var env signature.Envelope
	var states []c20State
	var startBytes []byte
	var reparsed [2]string // what a fresh object parsed from startBytes showed the first time (verify / content)
	switch sc.Start {
	case 0:
		env, err = signature.NewEnvelope(mt)
		if err != nil {
			obs.Harness = err.Error()
			return
		}
		states = []c20State{{Kind: "empty", Label: "new"}}
		logf("start: new envelope object (%s)", mt)
	default:
		r := reqs[sc.StartReq]
		sr, _, err := buildReq(r, false, false)
		if err != nil {
			obs.Harness = err.Error()
			return
		}
		src, err := signature.NewEnvelope(mt)
		if err != nil {
			obs.Harness = err.Error()
			return
		}
		b, err := src.Sign(sr)
		if err != nil {
			obs.Harness = "initial sign failed: " + err.Error()
			return
		}
		want := r.expect(sr.SigningTime, sr.Expiry)
		if sc.Start == 3 {
			rb, err := reshapeEnvelope(sc.Format, b, sc.Reshape)
			if err != nil {
				obs.Harness = "reshape: " + err.Error()
				return
			}
			b = rb
			st.Probes["c20_start_reshaped_"+reshapeNames[sc.Format][sc.Reshape]]++
			states = []c20State{{Kind: "foreign", Label: "parsed(" + r.Name + " re-encoded: " + reshapeNames[sc.Format][sc.Reshape] + ")"}}
		} else if sc.Start == 2 {
			other := reqs[1-sc.StartReq]
			tb, err := tamperEnvelope(sc.Format, b, other.Payload)
			if err != nil {
				obs.Harness = "tamper: " + err.Error()
				return
			}
			b = tb
			states = []c20State{{Kind: "tampered", Content: want, Payload: canonJSON(other.Payload), Label: "parsed(tampered " + r.Name + ")"}}
		} else {
			states = []c20State{{Kind: "parsed", Content: want, Label: "parsed(" + r.Name + ")"}}
		}
		env, err = signature.ParseEnvelope(mt, b)
		if err != nil {
			if sc.Start == 3 {
				// the library refuses these bytes outright: nothing to observe
				st.Probes["c20_reshaped_bytes_refused_by_parse"]++
				logf("start: %s refused by ParseEnvelope: %v", states[0].Label, errKind(err))
				return
			}
			obs.Harness = "parse of own envelope failed: " + err.Error()
			return
		}
		startBytes = b
		logf("start: %s", states[0].Label)
		// what a separate object parsed from the same bytes shows, before
		// anything has happened
		if ctrl, cerr := signature.ParseEnvelope(mt, b); cerr == nil {
			for idx := 0; idx < 2; idx++ {
				var c *signature.EnvelopeContent
				var err error
				func() {
					defer func() {
						if rec := recover(); rec != nil {
							err = fmt.Errorf("panic: %v", rec)
						}
					}()
					if idx == 0 {
						c, err = ctrl.Verify()
					} else {
						c, err = ctrl.Content()
					}
				}()
				if err != nil {
					reparsed[idx] = "error(" + errKind(err) + ")"
				} else {
					content, sigs := canonContent(c)
					reparsed[idx] = "content|" + content + "|" + sigs
				}
			}
		}
	}
	stateNames := func() string {
		var s []string
		for _, x := range states {
			s = append(s, x.Label)
		}
		return "{" + strings.Join(s, ", ") + "}"
	}
	hasEmpty := func() bool {
		for _, s := range states {
			if s.Kind == "empty" {
				return true
			}
		}
		return false
	}
	var nestedOK bool
	var nestedWant, nestedName string
	var nestedBytes []byte
	failedSince := "" // description of the failed sign(s) since the last success
	var lastObs [2]string
	var lastObsValid [2]bool
	// the preceding signing attempt (for retries) and every envelope a
	// successful Sign handed out (the caller keeps the slices it was given)
	var prevSR *signature.SignRequest
	prevReq := -1
	type handedOut struct {
		op    int
		bytes []byte
		want  string
		sigs  string
		name  string
	}
	var kept []handedOut
	recheckKept := func(when string) {
		for _, k := range kept {
			ante("C20.M3")
			full := ""
			if fresh, perr := signature.ParseEnvelope(mt, k.bytes); perr != nil {
				full = "unparsable(" + errKind(perr) + ")"
			} else if fc, verr := fresh.Verify(); verr != nil {
				full = "error(" + errKind(verr) + ")"
			} else {
				got, sigs := canonContent(fc)
				full = got + "|" + sigs
			}
			if full != k.want+"|"+k.sigs {
				fail("C20.M3", "returned_bytes_changed_later", fmt.Sprintf("%s: the bytes the successful Sign of op %d (%s) returned no longer say what they said when they were returned:\n  then: %s\n  now:  %s", when, k.op, k.name, shortContent(k.want), shortContent(full)))
			}
		}
	}
	// ---------- history ----------
	for oi, op := range sc.Ops {
		r := reqs[op.Req]
		switch op.Kind {
		case EOReparse:
			// a second object parsed from the same bytes shows those bytes,
			// whatever was done to the first object meanwhile
			ante("C20.M5")
			st.Probes["c20_reparse_original_bytes"]++
			second, perr := signature.ParseEnvelope(mt, startBytes)
			if perr != nil {
				fail("C20.M5", "reparse_refused", fmt.Sprintf("op %d: the bytes the object was parsed from no longer parse: %v", oi, perr))
				continue
			}
			for idx, name := range []string{"verify", "content"} {
				var c *signature.EnvelopeContent
				var err error
				func() {
					defer func() {
						if rec := recover(); rec != nil {
							err = fmt.Errorf("panic: %v", rec)
						}
					}()
					if idx == 0 {
						c, err = second.Verify()
					} else {
						c, err = second.Content()
					}
				}()
				full := ""
				if err != nil {
					full = "error(" + errKind(err) + ")"
				} else {
					content, sigs := canonContent(c)
					full = "content|" + content + "|" + sigs
				}
				logf("op %d reparse: %s of the second object -> %s", oi, name, shortContent(full))
				if reparsed[idx] == "" {
					reparsed[idx] = full
				} else if reparsed[idx] != full {
					fail("C20.M5", "second_object_differs/"+name, fmt.Sprintf("op %d: an object freshly parsed from the same bytes showed something else than the first time (%s):\n  first: %s\n  now:   %s", oi, name, reparsed[idx], full))
				}
			}
			continue
		case EOVerify, EOContent:
			var c *signature.EnvelopeContent
			var err error
			panicked := false
			func() {
				defer func() {
					if rec := recover(); rec != nil {
						panicked = true
						err = fmt.Errorf("panic: %v", rec)
					}
				}()
				if op.Kind == EOVerify {
					c, err = env.Verify()
				} else {
					c, err = env.Content()
				}
			}()
			if panicked {
				fail("C20.M1", "panic_in_observation", fmt.Sprintf("op %d %s panicked: %v", oi, envOpNames[op.Kind], err))
				continue
			}
			var outcome, content, sigs string
			if err != nil {
				var nf1 *signature.SignatureNotFoundError
				var nf2 *signature.SignatureEnvelopeNotFoundError
				if errors.As(err, &nf1) || errors.As(err, &nf2) {
					outcome = "no_signature"
				} else {
					outcome = fmt.Sprintf("error(%T)", err)
				}
			} else {
				content, sigs = canonContent(c)
				outcome = "content"
			}
			logf("op %d %s -> %s %s", oi, envOpNames[op.Kind], outcome, shortContent(content))
			// M1 purity: same observation repeated without a sign in between
			idx := op.Kind - EOVerify
			full := outcome + "|" + content + "|" + sigs
			if err != nil {
				// equal results includes equal refusals: the same object must
				// not be refused for a different reason the second time
				full += "|" + err.Error()
			}
			if lastObsValid[idx] {
				ante("C20.M1")
				if lastObs[idx] != full {
					fail("C20.M1", "impure_"+envOpNames[op.Kind], fmt.Sprintf("op %d: %s returned a different result than the previous %s without any signing in between:\n  before: %s\n  now:    %s", oi, envOpNames[op.Kind], envOpNames[op.Kind], lastObs[idx], full))
				}
			}
			lastObs[idx], lastObsValid[idx] = full, true
			if op.Kind == EOContent && lastObsValid[0] && strings.HasPrefix(lastObs[0], "content|") {
				ante("C20.M1")
				if full != lastObs[0] {
					fail("C20.M1", "content_differs_from_verify", fmt.Sprintf("op %d: Content() differs from the preceding successful Verify():\n  verify:  %s\n  content: %s", oi, lastObs[0], full))
				}
			}
			// explain by the state set
			var keep []c20State
			for _, s := range states {
				switch s.Kind {
				case "empty":
					if outcome == "no_signature" {
						keep = append(keep, s)
					}
				case "holds", "parsed":
					if outcome == "content" && content == s.Content && (s.Sigs == "" || s.Sigs == sigs) {
						s.Sigs = sigs
						keep = append(keep, s)
					}
				case "foreign":
					// nothing is prescribed about what these bytes mean, only
					// that they keep meaning the same
					if s.Seen[idx] == "" || s.Seen[idx] == full {
						s.Seen[idx] = full
						keep = append(keep, s)
					}
				case "tampered":
					if op.Kind == EOVerify {
						if strings.HasPrefix(outcome, "error(") {
							keep = append(keep, s)
						}
					} else {
						if strings.HasPrefix(outcome, "error(") || (outcome == "content" && strings.Contains(content, "payload="+s.Payload+";")) {
							keep = append(keep, s)
						}
					}
				}
			}
			if len(keep) == 0 {
				rule := "C20.M3"
				switch {
				case failedSince != "":
					rule = "C20.M4"
				case len(states) == 1 && states[0].Kind == "empty":
					rule = "C20.M2"
				}
				ante(rule)
				fail(rule, fmt.Sprintf("%s/%s/after=%s", envOpNames[op.Kind], outcomeKind(outcome), failedSinceKind(failedSince)),
					fmt.Sprintf("op %d %s returned %s %s, which none of the allowed states %s explains (failed signing attempts since the last success: %s)", oi, envOpNames[op.Kind], outcome, shortContent(content), stateNames(), orNone(failedSince)))
				// resynchronise on what the object shows to keep checking purity
				continue
			}
			if failedSince != "" {
				ante("C20.M4")
			} else if len(states) == 1 && states[0].Kind == "empty" {
				ante("C20.M2")
			}
			states = keep
		default:
			lastObsValid = [2]bool{}
			var sr *signature.SignRequest
			var ss *SimSigner
			how := ""
			if op.Retry && prevSR != nil && prevReq == op.Req && prevSR.Signer != nil && op.Kind != EOSignFailSigner && !(op.Kind == EOSignFailLate && op.Reenter) {
				// the same request object family: same Signer object, same signing
				// time, other attribute value / agent / expiry
				r2 := *r
				r2.Name = r.Name + "'"
				r2.Attr.Value = r.Attr.Value.(string) + "-retry"
				r2.Agent = r.Agent + "-retry"
				r2.Expiry = !r.Expiry
				r = &r2
			}
			sr, ss, err := buildReq(r, op.Remote, op.Kind == EOSignOK && op.WithTSA)
			if err != nil {
				obs.Harness = err.Error()
				return
			}
			if strings.HasSuffix(r.Name, "'") {
				sr.Signer, sr.SigningTime = prevSR.Signer, prevSR.SigningTime
				ss, _ = sr.Signer.(*SimSigner)
				if ss != nil {
					ss.Mode, ss.OnSign = 0, nil
				}
				sr.Expiry = time.Time{}
				if r.Expiry {
					sr.Expiry = sr.SigningTime.Add(48 * time.Hour)
				}
				st.Probes["c20_retry_with_same_signer_and_time"]++
			}
			switch op.Kind {
			case EOSignOK:
				if op.WithTSA {
					planTSA(TBValid, Fault{})
					how = "with_timestamp"
				}
			case EOSignFailEarly:
				switch op.EarlyHow {
				case 0:
					sr.Payload.Content = nil
					how = "empty_payload"
				case 1:
					sr.SigningTime = time.Time{}
					how = "no_signing_time"
				case 2:
					sr.Expiry = sr.SigningTime.Add(-time.Hour)
					how = "expiry_before_signing_time"
				case 3:
					sr.Signer = nil
					how = "nil_signer"
				case 4:
					sr.SigningScheme = ""
					how = "no_scheme"
				case 6:
					sr.SigningTime = time.Now().Truncate(time.Second).Add(200 * time.Millisecond)
					sr.Expiry = sr.SigningTime.Add(700 * time.Millisecond)
					how = "expiry_within_same_second"
				case 7:
					if sc.Format == 0 {
						sr.Payload.Content = append(append([]byte(nil), sr.Payload.Content...), []byte(` {"trailing":"document"}`)...)
						how = "payload_with_trailing_document"
					} else {
						sr.Payload.Content = nil
						how = "empty_payload"
					}
				case 8, 9:
					// an extended attribute named like a header of the specification
					// that this request does not use
					if sc.Format == 0 {
						sr.ExtendedSignedAttributes = append(sr.ExtendedSignedAttributes, signature.Attribute{Key: "io.cncf.notary.authenticSigningTime", Critical: op.EarlyHow == 8, Value: "2000-01-01T00:00:00Z"})
						how = "attribute_named_like_authentic_signing_time_header"
					} else {
						sr.Expiry = time.Time{}
						sr.ExtendedSignedAttributes = append(sr.ExtendedSignedAttributes, signature.Attribute{Key: "io.cncf.notary.expiry", Critical: op.EarlyHow == 8, Value: int64(946684800)})
						how = "attribute_named_like_expiry_header"
					}
				case 5:
					if sc.Format == 0 {
						sr.Payload.Content = []byte(`["not","an","object"]`)
						how = "payload_not_json_object"
					} else {
						sr.Payload.Content = nil
						how = "empty_payload"
					}
				}
			case EOSignFailSigner:
				ss.Mode = op.SignerHow
				how = []string{"", "signer_error", "signer_no_certs", "signer_keyspec_error"}[op.SignerHow]
			case EOSignFailLate:
				if op.Reenter {
					// the failing request uses a remote signer which, while it is
					// being asked to sign, signs the OTHER request on this object
					other := reqs[1-op.Req]
					rs := &SimSigner{Chain: r.Chain}
					sr.Signer = rs
					ss = rs
					rs.OnSign = func() {
						osr, _, err := buildReq(other, false, false)
						if err != nil {
							return
						}
						nb, nerr := env.Sign(osr)
						if nerr == nil {
							nestedOK, nestedWant, nestedBytes = true, other.expect(osr.SigningTime, osr.Expiry), nb
							nestedName = other.Name
						}
					}
				}
				if op.LateHow == 0 {
					sr.SigningTime = r.Chain.Leaf.X.NotBefore.Add(-time.Hour)
					how = "signing_time_before_not_before"
				} else {
					sr.SigningTime = r.Chain.Leaf.X.NotAfter.Add(time.Hour)
					how = "signing_time_after_not_after"
				}
				if r.Expiry {
					sr.Expiry = sr.SigningTime.Add(72 * time.Hour)
				}
			case EOSignFailTSA:
				sr.Timestamper = timestamper
				sr.TSARootCAs = roots
				sr.SigningScheme = signature.SigningSchemeX509
				switch op.TSAHow {
				case 0:
					planTSA(TBRejection, Fault{})
					how = "tsa_rejection"
				case 1:
					planTSA(TBValid, Fault{Kind: FConnErr})
					how = "tsa_connection_error"
				case 2:
					planTSA(TBCorruptSig, Fault{})
					how = "tsa_corrupted_signature"
				case 3:
					planTSA(TBValid, Fault{Kind: FStatus, Param: 503})
					how = "tsa_http_503"
				}
			}
			var b []byte
			var serr error
			panicked := false
			slowCancel := false
			nestedOK, nestedWant, nestedName = false, "", ""
			nestedBytes = nil
			func() {
				defer func() {
					if rec := recover(); rec != nil {
						panicked = true
						serr = fmt.Errorf("panic: %v", rec)
					}
				}()
				if op.CtxDone {
					cctx, ccancel := context.WithCancel(context.Background())
					ccancel()
					sr = sr.WithContext(cctx)
				} else if op.SlowCancel && ss != nil && sr.Signer == signature.Signer(ss) {
					ss.Latency = 50 * time.Millisecond
					cctx, ccancel := context.WithCancel(context.Background())
					defer ccancel()
					time.AfterFunc(10*time.Millisecond+cancelOffset, ccancel)
					sr = sr.WithContext(cctx)
					slowCancel = true
				}
				b, serr = env.Sign(sr)
			}()
			if slowCancel {
				// whatever the signing left running has time to finish
				time.Sleep(100 * time.Millisecond)
				how += "+context_cancelled_while_the_signer_was_busy"
				st.Probes["c20_context_cancelled_while_signer_busy"]++
			}
			prevSR, prevReq = sr, op.Req
			if op.Kind == EOSignFailLate && op.Reenter {
				how += "+reentrant_sign_" + nestedName
			}
			if op.CtxDone {
				how += "+context_already_cancelled"
			}
			st.Probes["c20_"+envOpNames[op.Kind]]++
			logf("op %d %s(%s,%s,remote=%v) -> err=%v bytes=%v", oi, envOpNames[op.Kind], r.Name, how, op.Remote, errKind(serr), b != nil)
			if panicked {
				fail("C20.M4", "panic_in_sign/"+how, fmt.Sprintf("op %d %s(%s) panicked: %v", oi, envOpNames[op.Kind], how, serr))
				states = append(states, c20State{Kind: "empty", Label: "empty"})
				continue
			}
			if serr == nil {
				if op.Kind != EOSignOK {
					// an injected failure did not fail the signing: other properties (C16/C15) decide that;
					// here the object now legitimately holds the request if it verifies
					st.Probes["c20_injected_failure_did_not_fail"]++
				}
				ante("C20.M3")
				failedSince = ""
				want := r.expectFor(sr.Payload.Content, sr.SigningTime, sr.Expiry)
				// the returned bytes, parsed afresh, verify to the request
				fresh, perr := signature.ParseEnvelope(mt, b)
				if perr != nil {
					fail("C20.M3", "returned_bytes_unparsable", fmt.Sprintf("op %d: bytes returned by Sign do not parse: %v", oi, perr))
					states = []c20State{{Kind: "holds", Content: want, Label: "holds(" + r.Name + ")"}}
					continue
				}
				fc, verr := fresh.Verify()
				sigs := ""
				if verr != nil {
					fail("C20.M3", "returned_bytes_do_not_verify", fmt.Sprintf("op %d: bytes returned by Sign do not verify: %v", oi, verr))
				} else {
					var got string
					got, sigs = canonContent(fc)
					if got != want {
						fail("C20.M3", "returned_bytes_differ_from_request", fmt.Sprintf("op %d: bytes returned by Sign verify to content that differs from the request:\n  want %s\n  got  %s", oi, want, got))
					}
				}
				states = []c20State{{Kind: "holds", Content: want, Sigs: sigs, Label: "holds(" + r.Name + ")"}}
				recheckKept(fmt.Sprintf("after the successful Sign of op %d", oi))
				if verr == nil {
					kept = append(kept, handedOut{op: oi, bytes: b, want: want, sigs: sigs, name: r.Name})
				}
				continue
			}
			// failed signing attempt
			recheckKept(fmt.Sprintf("after the failed Sign of op %d", oi))
			if b != nil {
				fail("C20.M4", "bytes_with_error/"+how, fmt.Sprintf("op %d: Sign returned an error together with bytes", oi))
			}
			if op.Kind == EOSignOK {
				st.Probes["c20_valid_sign_failed"]++
			}
			if failedSince != "" {
				failedSince += "+"
			}
			failedSince += envOpNames[op.Kind] + ":" + how + "(" + r.Name + ")"
			obs.Fired++
			if !hasEmpty() {
				states = append(states, c20State{Kind: "empty", Label: "empty"})
			}
			if nestedOK {
				// a successful signing happened in between: its content is a
				// legitimate "previous state" too
				_ = nestedBytes
				states = append(states, c20State{Kind: "holds", Content: nestedWant, Label: "holds(" + nestedName + ", signed re-entrantly)"})
				st.Probes["c20_reentrant_sign"]++
			}
		}
	}
	obs.TEnd = time.Now()
}

func errKind(err error) string {
	if err == nil {
		return "nil"
	}
	return fmt.Sprintf("%T", err)
}

func orNone(s string) string {
	if s == "" {
		return "none"
	}
	return s
}

func outcomeKind(o string) string {
	if strings.HasPrefix(o, "error(") {
		return "error"
	}
	return o
}

// failedSinceKind keeps only the kinds of the failed attempts (stable signature).
func failedSinceKind(s string) string {
	if s == "" {
		return "none"
	}
	var ks []string
	seen := map[string]bool{}
	for _, p := range strings.Split(s, "+") {
		k := p
		if i := strings.Index(k, ":"); i >= 0 {
			k = k[:i]
		}
		if !seen[k] {
			seen[k] = true
			ks = append(ks, k)
		}
	}
	sort.Strings(ks)
	return strings.Join(ks, "+")
}

func shortContent(c string) string {
	if c == "" {
		return ""
	}
	i := strings.Index(c, "attrs=[")
	if i < 0 {
		return ""
	}
	j := strings.Index(c[i:], "]")
	return "(" + c[i:i+j+1] + ")"
}

func describeC20(sc *c20Scenario) any {
	var ops []string
	for i, op := range sc.Ops {
		s := fmt.Sprintf("%d:%s", i, envOpNames[op.Kind])
		if op.Kind < EOVerify {
			s += fmt.Sprintf("(req=%s remote=%v tsa=%v early=%d signer=%d late=%d reenter=%v ctxdone=%v tsahow=%d)", []string{"A", "B"}[op.Req], op.Remote, op.WithTSA, op.EarlyHow, op.SignerHow, op.LateHow, op.Reenter, op.CtxDone, op.TSAHow)
		}
		ops = append(ops, s)
	}
	return map[string]any{"format": []string{"jws", "cose"}[sc.Format], "start": []string{"new", "parsed_valid", "parsed_tampered", "parsed_reencoded_" + reshapeNames[sc.Format][sc.Reshape]}[sc.Start], "start_request": []string{"A", "B"}[sc.StartReq],
		"key_a": sc.KeyA, "key_b": sc.KeyB, "payload_variant_a": sc.PayA, "payload_variant_b": sc.PayB, "ops": ops}
}

func runC20(t *Tape, st *Stats, tier string) *RunResult {
	sc := genC20(t)
	rr := &RunResult{}
	obs := execC20(sc, st)
	st.Bubbles++
	if obs.Harness != "" {
		rr.Harness = obs.Harness
		return rr
	}
	if obs.BubbleErr != "" {
		obs.Viol = append(obs.Viol, Violation{Prop: "C20", Rule: "C20.M1", Sig: "bubble", Msg: "bubble ended abnormally: " + firstLine(obs.BubbleErr)})
	}
	rr.Trace = obs.Log
	rr.Scenario = describeC20(sc)
	rr.Nontrivial = obs.Fired > 0 && len(obs.Ante) > 0
	var b bytes.Buffer
	for _, l := range obs.Log {
		b.WriteString(l)
	}
	rr.ShapeKey = hashHex(b.Bytes())
	rr.Violations = dedupeViolations(obs.Viol, "C20")
	rr.TraceHash = traceHash(rr.Trace)
	return rr
}

func init() { registerProp(&PropDef{ID: "C20", Run: runC20}) }
