package sim

import (
	"crypto/sha256"
	"crypto/x509/pkix"
	"encoding/asn1"
	"encoding/hex"
	"math/big"
	"time"
)

// Hand-assembled CRLs so that every defect is representable.

type crlEntryASN1 struct {
	SerialNumber   *big.Int
	RevocationTime time.Time
	Extensions     []pkix.Extension `asn1:"optional"`
}

type crlTBS struct {
	Version    int `asn1:"optional,default:0"`
	Signature  pkix.AlgorithmIdentifier
	Issuer     asn1.RawValue
	ThisUpdate time.Time
	NextUpdate time.Time        `asn1:"optional"`
	Revoked    []crlEntryASN1   `asn1:"optional"`
	Extensions []pkix.Extension `asn1:"tag:0,optional,explicit"`
}

type crlOuter struct {
	TBS       asn1.RawValue
	Algorithm pkix.AlgorithmIdentifier
	Signature asn1.BitString
}

// Invalidity-date kinds of a CRL / OCSP entry.
const (
	InvNone = iota
	InvBefore
	InvEqual
	InvAfter
	InvMalformed
)

// CRLEntrySpec is one revoked-certificate entry.
type CRLEntrySpec struct {
	Serial      *big.Int
	Match       bool // serial equals the checked certificate's
	Reason      int  // -1 = no reason extension
	RevTime     time.Time
	InvKind     int
	Invalidity  time.Time
	CriticalExt bool // unknown critical entry extension
	CritFirst   bool // the critical extension is encoded before the other entry extensions
}

// CRLSpec is the fully resolved description of one CRL.
type CRLSpec struct {
	SignerKind  string // "issuer" | "other_ca" | "unrelated" | "sigflip" | "stale_sig"
	ForeignSig  []byte // stale_sig: signature value of another (genuine) list, used instead of a signature over this content
	ForeignTBS  string // hash of the content ForeignSig covers
	Sig         []byte // filled by EncodeCRL: the signature value over this content
	TBSHash     string // filled by EncodeCRL
	SignerKey   *Key
	IssuerName  []byte
	ThisUpdate  time.Time
	NextUpdate  time.Time // zero = absent
	Number      int64     // <0 = absent
	HasInd      bool
	IndBad      bool  // indicator value unparsable as INTEGER
	Indicator   int64 // BaseCRLNumber
	IDPCritical bool
	UnknownCrit bool
	UnknownNon  bool
	Freshest    []byte // raw extension value (nil = absent)
	FreshURIs   int    // URI locations that extension advertises (by construction)
	Origin      string // URL this CRL was obtained from (served by / seeded for); provenance of the evidence
	Entries     []CRLEntrySpec
	// filled by EncodeCRL
	DER  []byte
	Hash string
}

// AdvertisedURIs is set by the builder: number of freshest-CRL URI locations
// the list advertises (by construction of its extension).
func (s *CRLSpec) advertises() bool { return s.FreshURIs > 0 }

func (s *CRLSpec) Authentic(issuerHasCRLSign bool) bool {
	return s.SignerKind == "issuer" && issuerHasCRLSign
}

// EncodeCRL assembles and signs the CRL, filling DER and Hash.
func EncodeCRL(s *CRLSpec) []byte {
	_, _, ai := sigAlgFor(s.SignerKey)
	tbs := crlTBS{
		Version:    1,
		Signature:  ai,
		Issuer:     asn1.RawValue{FullBytes: s.IssuerName},
		ThisUpdate: s.ThisUpdate.UTC().Truncate(time.Second),
	}
	if !s.NextUpdate.IsZero() {
		tbs.NextUpdate = s.NextUpdate.UTC().Truncate(time.Second)
	}
	for _, e := range s.Entries {
		ent := crlEntryASN1{SerialNumber: e.Serial, RevocationTime: e.RevTime.UTC().Truncate(time.Second)}
		if e.CriticalExt && e.CritFirst {
			ent.Extensions = append(ent.Extensions, pkix.Extension{Id: oidUnknownExt, Critical: true, Value: []byte{0x05, 0x00}})
		}
		if e.Reason >= 0 {
			ent.Extensions = append(ent.Extensions, pkix.Extension{Id: oidReasonCode, Value: mustMarshal(asn1.Enumerated(e.Reason))})
		}
		switch e.InvKind {
		case InvBefore, InvEqual, InvAfter:
			ent.Extensions = append(ent.Extensions, invalidityDateExt(e.Invalidity, false, false))
		case InvMalformed:
			ent.Extensions = append(ent.Extensions, invalidityDateExt(e.Invalidity, true, false))
		}
		if e.CriticalExt && !e.CritFirst {
			ent.Extensions = append(ent.Extensions, pkix.Extension{Id: oidUnknownExt, Critical: true, Value: []byte{0x05, 0x00}})
		}
		tbs.Revoked = append(tbs.Revoked, ent)
	}
	if s.Number >= 0 {
		tbs.Extensions = append(tbs.Extensions, pkix.Extension{Id: oidCRLNumber, Value: mustMarshal(big.NewInt(s.Number))})
	}
	if s.HasInd {
		v := mustMarshal(big.NewInt(s.Indicator))
		if s.IndBad {
			v = []byte{0x04, 0x01, 0x01} // OCTET STRING instead of INTEGER
		}
		tbs.Extensions = append(tbs.Extensions, pkix.Extension{Id: oidDeltaCRLIndicator, Critical: true, Value: v})
	}
	if s.IDPCritical {
		// IssuingDistributionPoint ::= SEQUENCE {} (all fields optional/default)
		tbs.Extensions = append(tbs.Extensions, pkix.Extension{Id: oidIssuingDP, Critical: true, Value: []byte{0x30, 0x00}})
	}
	if s.UnknownCrit {
		tbs.Extensions = append(tbs.Extensions, pkix.Extension{Id: oidUnknownExt, Critical: true, Value: []byte{0x05, 0x00}})
	}
	if s.UnknownNon {
		tbs.Extensions = append(tbs.Extensions, pkix.Extension{Id: asn1.ObjectIdentifier{1, 3, 6, 1, 4, 1, 99999, 1, 8}, Value: []byte{0x05, 0x00}})
	}
	if s.Freshest != nil {
		tbs.Extensions = append(tbs.Extensions, pkix.Extension{Id: oidFreshestCRL, Value: s.Freshest})
	}
	tbsDER := mustMarshal(tbs)
	ai2, sig := signWith(s.SignerKey, tbsDER)
	s.Sig, s.TBSHash = sig, hashHex(tbsDER)
	switch {
	case s.SignerKind == "stale_sig" && s.ForeignSig != nil && s.ForeignTBS != s.TBSHash:
		sig = s.ForeignSig
	case s.SignerKind == "sigflip" || s.SignerKind == "stale_sig":
		sig = append([]byte(nil), sig...)
		sig[len(sig)/2] ^= 0x04
	}
	der := mustMarshal(crlOuter{
		TBS:       asn1.RawValue{FullBytes: tbsDER},
		Algorithm: ai2,
		Signature: asn1.BitString{Bytes: sig, BitLength: 8 * len(sig)},
	})
	s.DER = der
	s.Hash = hashHex(der)
	return der
}

func hashHex(b []byte) string {
	h := sha256.Sum256(b)
	return hex.EncodeToString(h[:12])
}

// Freshest-CRL extension shapes (list-level, in the base CRL).
const (
	FrAbsent             = iota
	FrURIs               // 1..3 URI locations in one distribution point
	FrEmptySeq           // SEQUENCE {} (zero distribution points)
	FrNonURI             // only a dNSName general name
	FrRelativeName       // nameRelativeToCRLIssuer
	FrNoDPName           // distribution point without distributionPoint field
	FrMalformed          // not DER
	FrTwoDPs             // two distribution points each with one URI
	FrURIThenNonURI      // URI followed by non-URI name
	FrNonURIThenURI      // non-URI name first: the reference parser stops at it
	FrNamelessThenURIs   // a distribution point without name, then one with the URIs
	FrIssuerOnlyThenURIs // a distribution point with reasons+cRLIssuer only, then one with the URIs
	FrBadNameTLV         // a non-URI general name whose length runs past the end (82 05 61)
	FrBadURITLV          // a URI general name whose length runs past the end
	FrGarbageAfterURI    // a URI followed by bytes that are no TLV at all
	nFrShapes
)

// freshestValue builds the raw extension value for a shape. It returns the
// value and the list of URIs a conforming reader extracts from it in order
// (per the rule "URIs of fullName general names, in order, reading stops at
// the first non-URI name within a distribution point"), and whether the value
// is parseable at all.
func freshestValue(shape int, urls []string) (val []byte, extracted []string, parseOK bool) {
	uri := func(u string) []byte {
		return mustMarshal(asn1.RawValue{Class: asn1.ClassContextSpecific, Tag: 6, Bytes: []byte(u)})
	}
	dns := mustMarshal(asn1.RawValue{Class: asn1.ClassContextSpecific, Tag: 2, Bytes: []byte("crl.sim")})
	wrap := func(class, tag int, compound bool, inner []byte) []byte {
		return mustMarshal(asn1.RawValue{Class: class, Tag: tag, IsCompound: compound, Bytes: inner})
	}
	dpWithNames := func(names []byte) []byte {
		full := wrap(asn1.ClassContextSpecific, 0, true, names) // fullName [0]
		dpn := wrap(asn1.ClassContextSpecific, 0, true, full)   // distributionPoint [0]
		return wrap(asn1.ClassUniversal, 16, true, dpn)
	}
	seq := func(inner []byte) []byte { return wrap(asn1.ClassUniversal, 16, true, inner) }
	cat := func(bs ...[]byte) []byte {
		var out []byte
		for _, b := range bs {
			out = append(out, b...)
		}
		return out
	}
	switch shape {
	case FrURIs:
		var names []byte
		for _, u := range urls {
			names = append(names, uri(u)...)
		}
		return seq(dpWithNames(names)), append([]string(nil), urls...), true
	case FrEmptySeq:
		return seq(nil), nil, true
	case FrNonURI:
		return seq(dpWithNames(dns)), nil, true
	case FrRelativeName:
		rdn := wrap(asn1.ClassContextSpecific, 1, true, nil)
		dpn := wrap(asn1.ClassContextSpecific, 0, true, rdn)
		// a reader expecting fullName [0] inside finds [1]: unparsable
		return seq(seq(dpn)), nil, false
	case FrNoDPName:
		return seq(seq(nil)), nil, true
	case FrMalformed:
		return []byte{0x30, 0x05, 0x01}, nil, false
	case FrTwoDPs:
		var dps []byte
		for _, u := range urls {
			dps = append(dps, dpWithNames(uri(u))...)
		}
		return seq(dps), append([]string(nil), urls...), true
	case FrURIThenNonURI:
		return seq(dpWithNames(cat(uri(urls[0]), dns))), []string{urls[0]}, true
	case FrNonURIThenURI:
		return seq(dpWithNames(cat(dns, uri(urls[0])))), nil, true
	case FrBadNameTLV:
		return seq(dpWithNames([]byte{0x82, 0x05, 0x61})), nil, false
	case FrBadURITLV:
		return seq(dpWithNames([]byte{0x86, 0x05, 'h'})), nil, false
	case FrGarbageAfterURI:
		return seq(dpWithNames(cat(uri(urls[0]), []byte{0xff}))), nil, false
	case FrNamelessThenURIs, FrIssuerOnlyThenURIs:
		var names []byte
		for _, u := range urls {
			names = append(names, uri(u)...)
		}
		first := seq(nil)
		if shape == FrIssuerOnlyThenURIs {
			reasons := wrap(asn1.ClassContextSpecific, 1, false, []byte{0x06, 0x40}) // ReasonFlags BIT STRING
			dirName := wrap(asn1.ClassContextSpecific, 2, false, []byte("ca.sim"))   // dNSName
			crlIssuer := wrap(asn1.ClassContextSpecific, 2, true, dirName)
			first = seq(cat(reasons, crlIssuer))
		}
		return seq(cat(first, dpWithNames(names))), append([]string(nil), urls...), true
	}
	return nil, nil, true
}
