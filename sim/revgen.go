package sim

import (
	"fmt"
	"math/big"
	"strings"
	"sync/atomic"
	"time"
)

// RevProfile holds the generator biases of one property profile.
type RevProfile struct {
	Name            string
	LenW            []int // weights for chain length 1..5 (index 0 = length 1)
	OCSPCountW      []int // weights for 0..3 responders
	CRLCountW       []int // weights for 0..3 points
	EntryW          []int // ValidateContext / Validate / CheckStatus
	FetcherW        []int // real / real+cache / stub
	ConfigW         []int // fault-free / net only / byzantine only / everything
	PSrcFault       int   // percent of sources that deviate inside a fault-injecting run
	HostileURL      int   // percent of sources with a hostile URL string (only when enabled)
	CancelPct       int
	PanicPct        int
	BigBodyPct      int // oversize/endless bodies
	InvalidChain    int // percent of runs with a chain defect
	CRLRich         bool
	DeltaPct        int
	TimestampPct    int // percent of runs with purpose Timestamping
	STPct           int // percent with a signing time
	Schedules       int // number of alternative latency vectors (C12/C17)
	MaxCallers      int
	SharedClientPct int // OCSP and CRL downloads go through ONE http.Client object in this share of the runs
	StaggerPct      int // concurrent callers start at different instants in this share of the multi-caller runs
	RacePanic       bool
	CachePct        int
	LatMax          int   // upper bound of latencies in ms (0 = 3000)
	StaleSigPct     int   // of wrongly signed CRLs: percent that reuse the signature value of an earlier genuine list of the same issuer
	RepsPct         int   // single-world profiles: percent of runs in which 2..3 callers validate the same chain concurrently, with different signing times
	KeyW            []int // weights of certificate key kinds (ec256, ec384, rsa2048, ec521, rsa3072); nil = default mix
	SoakPct         int   // percent of runs that are sequential multi-validation histories over simulated time (shared cache)
	SoakLong        bool  // thorough: longer histories
	Perms           int   // forced completion-order permutations: n sampled, -1 = all m!
	Hostile         bool  // C09: structure-aware deletions and odd shapes on top
	TimeInvariant   bool  // C17: no time-dependent behaviours so that only the schedule varies
}

func defaultRevProfile(name string) *RevProfile {
	return &RevProfile{
		Name:       name,
		LenW:       []int{0, 45, 30, 15, 10},
		OCSPCountW: []int{25, 45, 20, 10},
		CRLCountW:  []int{25, 45, 20, 10},
		EntryW:     []int{70, 15, 15},
		FetcherW:   []int{50, 30, 20},
		ConfigW:    []int{20, 20, 20, 40},
		PSrcFault:  35, DeltaPct: 30, TimestampPct: 10, STPct: 50, Schedules: 1, MaxCallers: 1,
	}
}

// World is one certificate chain with all its revocation sources.
type World struct {
	ID          int
	sigMemo     [8]atomic.Pointer[sigMemo] // base world only: last genuine CRL signature value served per issuer position
	StaleSig    bool                       // the profile plays edited lists carrying an earlier genuine signature value
	Purpose     int                        // 0 code signing, 1 timestamping
	Certs       []*CertPlan
	ChainDefect int
	Entry       int
	HasST       bool
	STFrac      bool
	ST          time.Time
	SharedHost  bool
	Reps        int       // concurrent callers validating this same world (ValidateContext only)
	TSADefect   int       // C15: defect of the TSA chain (purpose timestamping)
	UseSysRoot  bool      // C15: the chain hangs under the process's host-trusted root
	InvBase     time.Time // reference instant of invalidity dates when no signing time is supplied (zero = stBase)
	CloneOf     *World    // soak: same chain and URLs as this world, other contents
	RepST       []int     // per concurrent caller: 0 the world's signing time, 1 none, 2 one hour earlier, 3 one hour later, 4 the reference instant
	EKUVariant  int       // ChainTSALeafEKU: 0 one unknown OID only, 1 no EKU extension, 2 timeStamping + codeSigning, 3 timeStamping non-critical
	SiblingLeaf bool      // soak: the leaf is ANOTHER certificate of the same CA (same URLs), listed as "other serial" in the original's CRLs
	// materialised
	OtherCA     *Cert
	Unrelated   *Key
	NameTwins   map[int]*Cert
	Siblings    map[int]*Cert
	Delegates   map[int]*Cert
	BadDeleg    map[int]*Cert
	UnrelCert   *Cert
	emptyCRLURL bool
	crlReg      []*CRLSpec // pre-run registry (cache seeds); a list: two seeds may be byte-identical
	ka          *keyAllocator
	fetchSlots  map[string]*fetchSlot
}

// RevScenario is everything one run does.
type RevScenario struct {
	Prof             *RevProfile
	Config           int
	Worlds           []*World
	Fetcher          int
	Discard          bool
	OCSPTimeout      time.Duration
	CRLTimeout       time.Duration
	Cancel           int
	CancelAfter      time.Duration
	CancelXSel       int             // CancelOnXchg: selects one of the planned exchanges
	CancelXPreferCRL bool            // ... preferring base-CRL downloads (the base/delta boundary)
	HealCert         int             // C06.R5 twin: certificate whose sources are made honest in the second run
	CacheLatency     time.Duration   // fake duration of every cache operation
	WrapMiss         bool            // the cache reports misses as a wrapped ErrCacheMiss
	PanicInSet       bool            // PanicAt == "cache": Set panics instead of Get
	SharedClient     bool            // one *http.Client serves OCSP and CRL
	CancelOnly       int             // 1 + position (order of the full scenario) of the only caller the cancellation applies to; 0 = all callers
	StaggerMs        []int           // start offset of every concurrent caller, in the order of the full scenario (nil = together)
	Sequential       bool            // soak: the worlds are successive validations of the same chain
	Gaps             []time.Duration // soak: fake time that passes before each validation
	Restarts         []bool          // soak: a new fetcher and validator (same cache) is built before the validation
	PanicAt          string          // "" | "transport" | "fetcher" | "cache"
	PanicWorld       int
	PanicRep         int
	PanicCert        int
	PanicCerts       []int // transport panics additionally at the first exchange of these certificates
	// enabled swarm masks
	netMask uint32
	byzMask uint32
	// alternative latency vectors: Sched[k][i] is the latency of exchange i
	AltSeeds []uint32
}

var stBase = Epoch.Add(-10 * 24 * time.Hour)

func revTime(idx int) time.Time { return Epoch.Add(-time.Duration(30-idx*5) * 24 * time.Hour) }

// latMax is the upper bound of drawn latencies in ms. Profiles that compare
// results across alternative latency vectors keep it below every client
// timeout, so that the schedule is the only thing that varies.
func genLatency(t *Tape, latMax int) time.Duration {
	if latMax <= 0 {
		latMax = 3000
	}
	return time.Duration(1+t.Choose(latMax)) * time.Millisecond
}

func (p *RevProfile) genFault(t *Tape, sc *RevScenario, kind string) Fault {
	// candidate network faults
	cands := []int{FConnErr, FStall, FStatus, FRedirect, FEmpty, FTruncate, FBodyErr, FBodyStall, FGarbage, FLyingCL, FCloseErr}
	if p.TimeInvariant {
		cands = []int{FConnErr, FStatus, FRedirect, FEmpty, FTruncate, FBodyErr, FGarbage, FLyingCL, FCloseErr}
	}
	var en []int
	for _, c := range cands {
		if sc.netMask&(1<<uint(c)) != 0 {
			en = append(en, c)
		}
	}
	if p.BigBodyPct > 0 && t.Bool(p.BigBodyPct) {
		if kind == "crl" || kind == "delta" {
			// 32 MiB bodies cost ~40 ms each: keep them rare
			if t.Bool(10) {
				return Fault{Kind: FOversize + t.Choose(2), Param: t.Choose(4096)}
			}
		} else {
			return Fault{Kind: FOversize + t.Choose(2), Param: t.Choose(4096)}
		}
	}
	if len(en) == 0 {
		return Fault{}
	}
	k := en[t.Choose(len(en))]
	f := Fault{Kind: k}
	switch k {
	case FStatus:
		f.Param = []int{404, 500, 503, 204, 301, 403, 206, 304, 201, 429}[t.Choose(10)]
		if p.BigBodyPct > 0 && t.Bool(12) {
			f.Param += 1000 // with an endless error page
		}
		if t.Bool(20) {
			f.Param += 10000 * (1 + t.Choose(5)) // with a Retry-After hint (seconds / HTTP date, near / far / past)
		}
	case FRedirect:
		f.Param = []int{302, 301, 303, 307, 308}[t.Weighted(40, 15, 15, 15, 15)]
		if t.Bool(12) {
			f.Param += 1000 // the target redirects again, and again
		}
	case FConnErr:
		f.Param = t.Weighted(40, 12, 10, 12, 8, 10, 8) // plain / typed DNS not-found / temporary DNS / refused / unexpected EOF / reset / EOF
	case FTruncate:
		f.Param = []int{500, 0, 999, 10, 900}[t.Choose(5)]
	case FBodyStall:
		f.Param = []int{100, 1500, 10000, 3600000}[t.Choose(4)]
	}
	return f
}

func (p *RevProfile) genOCSPContent(t *Tape, sc *RevScenario, truth int, deviate bool) OCSPContent {
	c := OCSPContent{}
	switch truth {
	case 0:
		c.Status = StGood
	case 1, 2:
		c.Status = StRevoked
		c.Reason = 1
		if truth == 2 {
			c.Reason = 6
		}
	default:
		c.Status = StUnknown
	}
	c.RevAgo = 24 * (1 + t.Choose(20))
	c.ByName = t.Bool(30)
	if t.Bool(25) {
		c.Signer = SgDelegate
	}
	if c.Status == StRevoked {
		c.InvKind = t.Weighted(60, 10, 10, 15, 5)
		c.Reason = []int{1, 0, 2, 3, 4, 5, 6, 8, 9, 10}[t.Choose(10)]
	} else if t.Bool(8) {
		// a meaningless invalidityDate on a Good / Unknown answer
		c.InvOnAny = true
		c.InvKind = 1 + t.Choose(3)
	}
	// a response of exactly (or one byte around) the size the client is
	// prepared to read
	c.Pad = t.Weighted(93, 2, 3, 2)
	if !deviate {
		return c
	}
	// Byzantine / defective deviations
	dev := t.Weighted(0, 30, 12, 22, 8, 10) // -, forged signer, wrong serial, staleness/boundary, error status, status flip
	switch dev {
	case 1:
		c.Signer = SgSelf + t.Choose(nSigners-SgSelf)
		if t.Bool(70) {
			c.Status = StGood // the dangerous direction
		}
		switch c.Signer {
		case SgSelf, SgSibling, SgSiblingIssuerName, SgOtherCADeleg:
			c.NoEmbed = t.Bool(20)
		}
	case 2:
		c.SerialKind = 1 + t.Choose(nSerialKinds-1)
	case 3:
		c.NextKind = 1 + t.Choose(nNextKinds-1)
		if p.TimeInvariant {
			c.NextKind = []int{NuExpired, NuAbsent}[c.NextKind%2]
		}
	case 4:
		c.ErrStatus = []int{1, 2, 3, 5, 6}[t.Choose(5)]
	case 5:
		c.Status = t.Choose(3)
		if c.Status == StRevoked {
			c.InvKind = t.Choose(5)
			c.Reason = t.Choose(11)
		}
	}
	return c
}

func genEntries(t *Tape, rich bool, truth int) []EntryPlan {
	var es []EntryPlan
	n := t.Weighted(50, 30, 12, 5, 3)
	if rich {
		n = t.Weighted(10, 30, 30, 20, 10)
	}
	for i := 0; i < n; i++ {
		e := EntryPlan{Reason: -1}
		if rich {
			e.Match = t.Bool(70)
			e.Reason = []int{6, 8, 1, 0, 2, 3, 4, 5, 7, 9, 10, -1}[t.Choose(12)]
			if t.Bool(50) { // bias towards hold/remove interplay
				e.Reason = []int{6, 8}[t.Choose(2)]
			}
			e.RevIdx = t.Choose(3)
			e.InvKind = t.Weighted(45, 15, 12, 25, 3)
			e.Crit = t.Bool(6)
			e.CritFirst = t.Bool(50)
		} else {
			e.Match = false
			e.Reason = t.Choose(11)
			e.RevIdx = t.Choose(3)
		}
		es = append(es, e)
	}
	if !rich {
		switch truth {
		case 1:
			es = append(es, EntryPlan{Match: true, Reason: []int{1, 0, 4, 9, -1}[t.Choose(5)], RevIdx: t.Choose(3), InvKind: t.Weighted(70, 8, 7, 12, 3)})
		case 2:
			es = append(es, EntryPlan{Match: true, Reason: 6, RevIdx: t.Choose(3)})
		}
	}
	return es
}

func (p *RevProfile) genCRLPlan(t *Tape, sc *RevScenario, truth int, deviate bool, isDelta bool) CRLPlan {
	c := CRLPlan{SignerKind: "issuer"}
	if isDelta {
		c.NumOff = 1 + int64(t.Choose(3))
		c.IndOff = -int64(t.Choose(3))
		c.EarlyThis = t.Bool(15)
		c.Entries = genEntries(t, p.CRLRich, 0)
		if !p.CRLRich && truth == 1 && t.Bool(50) {
			c.Entries = append(c.Entries, EntryPlan{Match: true, Reason: 1, RevIdx: 2})
		}
	} else {
		c.Entries = genEntries(t, p.CRLRich, truth)
		c.IDPCritical = t.Bool(15)
	}
	c.UnknownNon = t.Bool(10)
	if p.Hostile {
		// structure-aware deletions and malformed fields (C09)
		c.NumberAbs = t.Bool(12)
		if t.Bool(10) {
			c.Entries = append(c.Entries, EntryPlan{Match: t.Bool(70), Reason: []int{-1, 7, 11, 255, 6}[t.Choose(5)], RevIdx: t.Choose(3), InvKind: InvMalformed, Crit: t.Bool(20)})
		}
		if isDelta && t.Bool(10) {
			c.IndKind = 1 + t.Choose(2)
		}
	}
	if !deviate {
		return c
	}
	dev := t.Weighted(0, 25, 30, 12, 20, 8)
	switch dev {
	case 1:
		c.SignerKind = []string{"other_ca", "unrelated", "sigflip"}[t.Choose(3)]
		if p.StaleSigPct > 0 && t.Bool(p.StaleSigPct) {
			// an edited list that carries the signature VALUE of a genuine
			// list this issuer published earlier in the run
			c.SignerKind = "stale_sig"
		}
	case 2:
		c.NextKind = 1 + t.Choose(nNextKinds-1)
		if p.TimeInvariant {
			c.NextKind = []int{NuExpired, NuAbsent}[c.NextKind%2]
		}
	case 3:
		c.UnknownCrit = true
	case 4:
		if isDelta {
			switch t.Choose(8) {
			case 6, 7:
				c.NumberAbs = true
			case 0:
				c.NumOff = 0
			case 1:
				c.NumOff = -1
			case 2:
				c.IndKind = 1
			case 3:
				c.IndKind = 2
			case 4:
				c.IndOff = 1
			case 5:
				c.IndOff = 0
				c.NumOff = 1
			}
		} else if t.Bool(40) {
			// base without CRL number (matters when a delta accompanies it)
			c.NumberAbs = true
		} else {
			c.NextKind = NuAbsent
		}
	case 5:
		// a matching entry with an unknown critical extension
		c.Entries = append(c.Entries, EntryPlan{Match: true, Reason: []int{6, 8, 1, -1}[t.Choose(4)], RevIdx: t.Choose(3), Crit: true, CritFirst: t.Bool(50), InvKind: t.Weighted(40, 15, 15, 30)})
	}
	return c
}

// GenRevScenario draws a complete scenario from the tape.
func GenRevScenario(t *Tape, p *RevProfile) *RevScenario {
	sc := &RevScenario{Prof: p}
	sc.Config = t.Weighted(p.ConfigW...)
	// swarm masks: a random half of the alphabets
	sc.netMask = uint32(t.Choose(1 << 16))
	sc.byzMask = uint32(t.Choose(1 << 8))
	if sc.Config == 0 || sc.Config == 2 {
		sc.netMask = 0
	}
	sc.Fetcher = t.Weighted(p.FetcherW...)
	sc.Discard = t.Bool(50)
	sc.CacheLatency = []time.Duration{0, 3 * time.Millisecond, 40 * time.Millisecond}[t.Weighted(50, 30, 20)]
	sc.PanicInSet = t.Bool(50)
	sc.WrapMiss = t.Bool(35)
	sc.OCSPTimeout = []time.Duration{2 * time.Second, 0, 500 * time.Millisecond, 5 * time.Second}[t.Weighted(50, 15, 15, 20)]
	sc.CRLTimeout = []time.Duration{5 * time.Second, 0, 500 * time.Millisecond, 2 * time.Second}[t.Weighted(50, 15, 15, 20)]
	if p.SharedClientPct > 0 && t.Bool(p.SharedClientPct) {
		// the caller hands one and the same client to the validator and to the fetcher
		sc.SharedClient = true
		sc.CRLTimeout = sc.OCSPTimeout
	}
	nWorlds := 1
	if p.MaxCallers > 1 {
		nWorlds = 1 + t.Weighted(40, 25, 15, 10, 10)*((p.MaxCallers-1)/4+1)
		if nWorlds > p.MaxCallers {
			nWorlds = p.MaxCallers
		}
	}
	total := 0
	for w := 0; w < nWorlds; w++ {
		wd := p.genWorld(t, sc, w)
		if p.MaxCallers > 1 && total+wd.reps() > p.MaxCallers {
			wd.Reps = 1
		}
		total += wd.reps()
		sc.Worlds = append(sc.Worlds, wd)
		if p.MaxCallers > 1 && total >= p.MaxCallers {
			break
		}
	}
	if p.SoakPct > 0 && t.Bool(p.SoakPct) && len(sc.Worlds) == 1 && sc.Worlds[0].Entry == EValidateContext && sc.Worlds[0].ChainDefect == ChainOK {
		// a history of validations of the same chain over simulated time:
		// sources change their answers, caches age, the validator is restarted
		sc.Sequential = true
		if sc.Fetcher == FetchReal && t.Bool(70) {
			sc.Fetcher = FetchRealCache
		}
		nOps := 2 + t.Weighted(45, 30, 15, 10)
		if p.SoakLong {
			nOps = 3 + t.Choose(6)
		}
		sc.Gaps = []time.Duration{0}
		sc.Restarts = []bool{false}
		for k := 1; k < nOps; k++ {
			sc.Worlds = append(sc.Worlds, p.cloneWorld(t, sc, sc.Worlds[0], k))
			gap := []time.Duration{time.Second, 10 * time.Minute, 26*time.Hour - 3*time.Second, 26 * time.Hour, 26*time.Hour + 2*time.Second, 30 * 24 * time.Hour, 0, 3 * time.Second}[t.Weighted(20, 20, 12, 12, 12, 10, 6, 8)]
			sc.Gaps = append(sc.Gaps, gap)
			sc.Restarts = append(sc.Restarts, t.Bool(20))
		}
	}
	if p.CancelPct > 0 && !sc.Sequential && t.Bool(p.CancelPct) {
		sc.Cancel = 1 + t.Weighted(12, 48, 12, 28)
		sc.CancelAfter = time.Duration(t.Choose(6000)) * time.Millisecond
		sc.CancelXSel = t.Choose(1000)
		sc.CancelXPreferCRL = t.Bool(50)
	}
	if p.StaggerPct > 0 && total > 1 && (sc.Cancel == CancelBefore || sc.Cancel == CancelAt || sc.Cancel == CancelDeadline) && t.Bool(50) {
		// only ONE of the concurrent callers is cancelled / has the deadline:
		// the others must not feel it
		sc.CancelOnly = 1 + t.Choose(total)
	}
	if n := len(sc.Worlds[0].Certs); n > 1 {
		sc.HealCert = t.Choose(n - 1)
	}
	if p.PanicPct > 0 && t.Bool(p.PanicPct) {
		sc.PanicAt = []string{"transport", "fetcher", "cache"}[t.Weighted(50, 30, 20)]
		sc.PanicWorld = t.Choose(len(sc.Worlds))
		w := sc.Worlds[sc.PanicWorld]
		sc.PanicRep = t.Choose(w.reps())
		if len(w.Certs) > 1 {
			sc.PanicCert = t.Choose(len(w.Certs) - 1)
		}
		if sc.PanicAt == "transport" && t.Bool(35) {
			// several per-certificate checks panic in the same call
			for c := 0; c < len(w.Certs)-1; c++ {
				if c != sc.PanicCert && t.Bool(60) {
					sc.PanicCerts = append(sc.PanicCerts, c)
				}
			}
		}
	}
	if p.StaggerPct > 0 && !sc.Sequential && total > 1 && t.Bool(p.StaggerPct) {
		// the callers do not start together: some arrive while earlier ones are
		// busy, some shortly after an earlier one has finished
		for j := 0; j < total; j++ {
			ms := 0
			if j > 0 {
				ms = []int{0, 1 + t.Choose(50), 100 + t.Choose(1400), 3000 + t.Choose(5000)}[t.Weighted(20, 25, 30, 25)]
			}
			sc.StaggerMs = append(sc.StaggerMs, ms)
		}
	}
	for i := 0; i < p.Schedules-1 && !sc.Sequential; i++ {
		sc.AltSeeds = append(sc.AltSeeds, uint32(t.Choose(1<<30)))
	}
	if p.Perms != 0 && !sc.Sequential {
		// forced completion orders of the concurrent per-certificate checks:
		// all m! of them (Perms < 0) or a seeded sample of Perms
		m := 0
		for _, w := range sc.Worlds {
			if len(w.Certs)-1 > m {
				m = len(w.Certs) - 1
			}
		}
		if m >= 2 {
			f := factorial(m)
			if p.Perms < 0 || p.Perms >= f {
				for r := 0; r < f; r++ {
					sc.AltSeeds = append(sc.AltSeeds, permFlag|uint32(r))
				}
			} else {
				for i := 0; i < p.Perms; i++ {
					sc.AltSeeds = append(sc.AltSeeds, permFlag|uint32(t.Choose(f)))
				}
			}
		}
	}
	return sc
}

// cloneWorld makes the k-th validation of a soak history: same chain, same
// URLs, but every source may answer differently than before (the CA revoked or
// released the certificate, a responder went down, a new CRL was published).
func (p *RevProfile) cloneWorld(t *Tape, sc *RevScenario, o *World, k int) *World {
	w := &World{ID: o.ID + k, Purpose: o.Purpose, Entry: o.Entry, HasST: o.HasST, STFrac: o.STFrac, ST: o.ST, CloneOf: o, StaleSig: o.StaleSig}
	// the next validation may supply another signing time (another signature
	// of the same signer is being verified): none, an hour earlier, an hour later
	stBaseOf := stBase
	if o.HasST {
		stBaseOf = o.ST
	}
	switch t.Weighted(60, 14, 13, 13) {
	case 1:
		w.HasST, w.ST = false, time.Time{}
	case 2:
		w.HasST, w.ST = true, stBaseOf.Add(-time.Hour)
	case 3:
		w.HasST, w.ST = true, stBaseOf.Add(time.Hour)
	}
	faulty := sc.Config != 0
	// sometimes the next validation is for a sibling of the leaf: another
	// certificate of the same CA with the same URLs, whose serial number the
	// original's CRLs list among the "other" entries. Its sources keep their
	// answers, so that what the library cached for the first leaf is consulted
	// for the second.
	w.SiblingLeaf = len(o.Certs) > 1 && !o.Certs[0].LongSerial && t.Bool(25)
	keep := w.SiblingLeaf
	for _, ocp := range o.Certs {
		cp := &CertPlan{Pos: ocp.Pos, KeyKind: ocp.KeyKind, LongSerial: ocp.LongSerial, Serial: ocp.Serial, NoCRLSign: ocp.NoCRLSign, SameName: ocp.SameName, Freshest: ocp.Freshest}
		if w.SiblingLeaf && ocp.Pos == 0 {
			cp.Serial = new(big.Int).Add(ocp.Serial, big.NewInt(5000))
		}
		truth := t.Weighted(55, 30, 5, 10)
		for _, os := range ocp.OCSP {
			s := &OCSPSrc{URL: os.URL, URLKind: os.URLKind, Host: os.Host, Content: os.Content, Fault: os.Fault, Latency: os.Latency}
			if t.Bool(45) && !keep {
				dev := faulty && sc.Config >= 2 && t.Bool(p.PSrcFault)
				s.Content = p.genOCSPContent(t, sc, truth, dev)
				s.Fault = Fault{}
				if faulty && sc.Config != 2 && t.Bool(p.PSrcFault) {
					s.Fault = p.genFault(t, sc, "ocsp")
				}
				s.Latency = genLatency(t, p.LatMax)
			}
			cp.OCSP = append(cp.OCSP, s)
		}
		for _, oc := range ocp.CRL {
			c := *oc
			s := &c
			s.XBase, s.XDelta, s.XBase2 = nil, nil, nil
			s.CacheSeed = 0
			s.BaseNum = oc.BaseNum + int64(3*k) // a newer publication
			s.DeltaFault = append([]Fault(nil), oc.DeltaFault...)
			s.DeltaLat = append([]time.Duration(nil), oc.DeltaLat...)
			if keep {
				s.BaseNum = oc.BaseNum
			}
			if t.Bool(45) && !keep {
				dev := faulty && sc.Config >= 2 && t.Bool(p.PSrcFault)
				s.Base = p.genCRLPlan(t, sc, truth, dev, false)
				s.BaseFault = Fault{}
				if faulty && sc.Config != 2 && t.Bool(p.PSrcFault) {
					s.BaseFault = p.genFault(t, sc, "crl")
				}
				if s.HasDelta {
					devD := faulty && sc.Config >= 2 && t.Bool(p.PSrcFault)
					s.Delta = p.genCRLPlan(t, sc, truth, devD, true)
					for j := range s.DeltaFault {
						s.DeltaFault[j] = Fault{}
						if faulty && sc.Config != 2 && t.Bool(p.PSrcFault) {
							s.DeltaFault[j] = p.genFault(t, sc, "delta")
						}
					}
				}
				if sc.Fetcher == FetchStub {
					s.StubErr = faulty && t.Bool(p.PSrcFault/2)
				}
				if sc.Fetcher == FetchRealCache && faulty {
					s.CacheGetEr = t.Bool(10)
					s.CacheSetEr = t.Bool(10)
				}
			}
			cp.CRL = append(cp.CRL, s)
		}
		w.Certs = append(w.Certs, cp)
	}
	return w
}

func (p *RevProfile) genWorld(t *Tape, sc *RevScenario, id int) *World {
	w := &World{ID: id, StaleSig: p.StaleSigPct > 0}
	n := 1 + t.Weighted(p.LenW...)
	if p.TimestampPct > 0 && t.Bool(p.TimestampPct) {
		w.Purpose = 1
	}
	w.Entry = t.Weighted(p.EntryW...)
	if w.Entry == EValidate {
		// the deprecated constructor is fixed to the code-signing purpose
		w.Purpose = 0
	}
	if len(sc.Worlds) > 0 && sc.Worlds[0].Entry != ECheckStatus && w.Entry == ECheckStatus {
		// CheckStatus brings its own client and validator; allowed to mix
	}
	if t.Bool(p.STPct) {
		w.HasST = true
		w.STFrac = t.Bool(20)
		w.ST = stBase
		if w.STFrac {
			w.ST = stBase.Add(500 * time.Millisecond)
		}
	}
	if p.MaxCallers > 1 && w.Entry == EValidateContext {
		w.Reps = 1 + t.Weighted(45, 25, 12, 10, 8)
		if w.Reps == 5 {
			w.Reps = p.MaxCallers / 2
		}
	}
	if !w.HasST && t.Bool(50) {
		// no signing time supplied: invalidity dates that lie in the future of
		// the validation instant (they do not exempt anything then)
		w.InvBase = Epoch.Add(2 * time.Hour)
	}
	if p.RepsPct > 0 && w.Entry == EValidateContext && t.Bool(p.RepsPct) {
		w.Reps = 2 + t.Choose(2)
	}
	if w.Reps > 1 && t.Bool(40) {
		for r := 0; r < w.Reps; r++ {
			w.RepST = append(w.RepST, t.Weighted(40, 20, 15, 15, 10))
		}
	}
	if p.InvalidChain > 0 && t.Bool(p.InvalidChain) {
		w.ChainDefect = 1 + t.Choose(8)
		if w.Entry == EValidate && w.ChainDefect == ChainWrongPurpose {
			w.ChainDefect = ChainEmpty
		}
		if w.ChainDefect == ChainTSALeafEKU {
			if w.Entry == EValidate {
				w.ChainDefect = ChainMissingRoot
			} else {
				w.Purpose = 1
				w.EKUVariant = t.Choose(4)
			}
		}
	}
	faulty := sc.Config != 0
	for pos := 0; pos < n; pos++ {
		cp := &CertPlan{Pos: pos}
		kw := p.KeyW
		if kw == nil {
			kw = []int{55, 15, 20, 5, 5}
		}
		cp.KeyKind = []string{"ec256", "ec384", "rsa2048", "ec521", "rsa3072"}[t.Weighted(kw...)]
		cp.LongSerial = t.Bool(12)
		if cp.LongSerial {
			b := make([]byte, 112)
			fillPattern(b, uint64(1000+pos*7+id*131))
			b[0] &= 0x7f
			b[0] |= 0x40
			cp.Serial = new(big.Int).SetBytes(b)
		} else {
			cp.Serial = big.NewInt(int64(1000 + pos*17 + id*1000 + t.Choose(7)))
		}
		if pos > 0 {
			cp.NoCRLSign = faulty && sc.Config >= 2 && t.Bool(6)
		}
		if pos > 0 && pos < n-1 {
			cp.SameName = t.Bool(6)
		}
		root := pos == n-1
		truth := t.Weighted(65, 20, 5, 10)
		nO := t.Weighted(p.OCSPCountW...)
		nC := t.Weighted(p.CRLCountW...)
		if root && !t.Bool(50) {
			// roots usually name no sources; sometimes they do (and must be ignored)
			nO, nC = 0, 0
		}
		for i := 0; i < nO; i++ {
			s := &OCSPSrc{Host: fmt.Sprintf("o%d-%d.w%d.sim", pos, i, id)}
			if faulty && p.HostileURL > 0 && t.Bool(p.HostileURL) {
				s.URLKind = 1 + t.Choose(nURLKinds-1)
			}
			// responder URLs come with and without path, trailing slash and query
			s.URL = makeURL(s.URLKind, s.Host, []string{"/ocsp", "", "/", "/a/b/", "/ocsp?tenant=1", "/ocsp/"}[t.Weighted(60, 8, 8, 8, 8, 8)])
			dev := faulty && sc.Config >= 2 && t.Bool(p.PSrcFault)
			s.Content = p.genOCSPContent(t, sc, truth, dev)
			if faulty && sc.Config != 2 && t.Bool(p.PSrcFault) {
				s.Fault = p.genFault(t, sc, "ocsp")
			}
			s.Latency = genLatency(t, p.LatMax)
			if i > 0 && s.URLKind == UNormal && cp.OCSP[i-1].URLKind == UNormal && t.Bool(5) {
				// the same responder listed twice in a row (legal, unusual)
				s.Host, s.URL = cp.OCSP[i-1].Host, cp.OCSP[i-1].URL
			}
			cp.OCSP = append(cp.OCSP, s)
		}
		if nO >= 2 && !root && faulty && sc.Config >= 2 && t.Bool(4) {
			// an unauthorised signer seen twice: first with its certificate
			// embedded, then - by the next responder - without
			k := []int{SgSelf, SgSibling, SgSiblingIssuerName, SgOtherCADeleg}[t.Choose(4)]
			a, b := cp.OCSP[0], cp.OCSP[1]
			if a.URLKind == UNormal && b.URLKind == UNormal && a.URL != b.URL {
				a.Content = OCSPContent{Status: StGood, Signer: k, RevAgo: 24}
				b.Content = OCSPContent{Status: StGood, Signer: k, RevAgo: 24, NoEmbed: true}
				a.Fault, b.Fault = Fault{}, Fault{}
			}
		}
		for i := 0; i < nC; i++ {
			s := &CRLSrc{Host: fmt.Sprintf("c%d-%d.w%d.sim", pos, i, id)}
			if faulty && p.HostileURL > 0 && t.Bool(p.HostileURL) {
				s.URLKind = 1 + t.Choose(nURLKinds-1)
				if s.URLKind == UEmpty {
					// Fetch("") calls cannot be told apart: at most one
					// distribution point of a world carries the empty string
					if w.emptyCRLURL {
						s.URLKind = UNoScheme
					}
					w.emptyCRLURL = true
				}
			}
			s.URL = makeURL(s.URLKind, s.Host, []string{"/ca.crl", "/crl/ca.crl?v=2", "/", ""}[t.Weighted(76, 8, 8, 8)])
			if i > 0 && s.URLKind == UNormal && cp.CRL[i-1].URLKind == UNormal && !strings.Contains(cp.CRL[i-1].URL, "?") && t.Bool(7) {
				// a second distribution point on the same host whose URL differs
				// from the previous one only in letter case or in the query
				s.Host = cp.CRL[i-1].Host
				prev := cp.CRL[i-1].URL
				if t.Bool(50) || !strings.HasSuffix(prev, "/ca.crl") {
					s.URL = prev + "?part=2"
				} else {
					s.URL = strings.TrimSuffix(prev, "/ca.crl") + "/CA.crl"
				}
			}
			s.BaseNum = int64(10 + t.Choose(5))
			dev := faulty && sc.Config >= 2 && t.Bool(p.PSrcFault)
			s.Base = p.genCRLPlan(t, sc, truth, dev, false)
			s.BaseLat = genLatency(t, p.LatMax)
			if faulty && sc.Config != 2 && t.Bool(p.PSrcFault) {
				s.BaseFault = p.genFault(t, sc, "crl")
			}
			if t.Bool(p.DeltaPct) {
				s.HasDelta = true
				s.FrShape = FrURIs
				nd := 1 + t.Weighted(70, 20, 10)
				for j := 0; j < nd; j++ {
					// advertised order deliberately differs from lexicographic order
					dk := t.Weighted(86, 0, 6, 5, 0, 0, 0, 0, 0, 3) // mostly plain http; https / ldap / unparsable locations are skipped by a conforming fetcher
					s.DeltaURL = append(s.DeltaURL, makeURL(dk, fmt.Sprintf("d%d-%d-%d.w%d.sim", pos, i, 2-j, id), "/delta.crl"))
					f := Fault{}
					if faulty && sc.Config != 2 && t.Bool(p.PSrcFault) {
						f = p.genFault(t, sc, "delta")
					}
					s.DeltaFault = append(s.DeltaFault, f)
					s.DeltaLat = append(s.DeltaLat, genLatency(t, p.LatMax))
				}
				devD := faulty && sc.Config >= 2 && t.Bool(p.PSrcFault)
				s.Delta = p.genCRLPlan(t, sc, truth, devD, true)
			} else if faulty && sc.Config >= 2 && t.Bool(8) {
				// base advertising odd freshest shapes without usable location
				s.FrShape = []int{FrEmptySeq, FrNonURI, FrNoDPName}[t.Choose(3)]
			} else if p.Hostile && t.Bool(15) {
				s.FrShape = []int{FrMalformed, FrRelativeName, FrEmptySeq, FrNonURI, FrNoDPName, FrBadNameTLV, FrBadURITLV, FrGarbageAfterURI, FrNonURIThenURI}[t.Choose(9)]
				if s.FrShape == FrGarbageAfterURI || s.FrShape == FrNonURIThenURI {
					s.DeltaURL = []string{fmt.Sprintf("http://d%d-%d-0.w%d.sim/delta.crl", pos, i, id)}
					s.DeltaFault = []Fault{{}}
					s.DeltaLat = []time.Duration{genLatency(t, p.LatMax)}
					s.Delta = p.genCRLPlan(t, sc, truth, false, true)
				}
			}
			if faulty && s.URLKind == UNormal {
				s.Second = t.Weighted(88, 6, 6)
			}
			if sc.Fetcher == FetchStub {
				s.StubErr = faulty && t.Bool(p.PSrcFault/2)
			}
			if sc.Fetcher == FetchRealCache {
				s.CacheSeed = t.Weighted(55, 20, 10, 10, 5)
				if p.TimeInvariant && (s.CacheSeed == 2 || s.CacheSeed == 4) {
					s.CacheSeed = 1
				}
				if faulty {
					s.CacheGetEr = t.Bool(10)
					s.CacheSetEr = t.Bool(10)
				}
			}
			cp.CRL = append(cp.CRL, s)
		}
		if nC > 0 && t.Bool(10) {
			cp.Freshest = true
		}
		w.Certs = append(w.Certs, cp)
	}
	return w
}

type sigMemo struct {
	sig []byte
	tbs string // hash of the content that signature covers
}
