package sim

import (
	"crypto/rsa"
	"crypto/sha1"
	"crypto/x509"
	"crypto/x509/pkix"
	"encoding/asn1"
	"math/big"
	"time"
)

// Own OCSP response encoder (RFC 6960). x/crypto's CreateResponse cannot
// forge, omit nextUpdate, emit several SingleResponses or corrupt regions.

var oidOCSPBasic = asn1.ObjectIdentifier{1, 3, 6, 1, 5, 5, 7, 48, 1, 1}
var oidSHA1 = asn1.ObjectIdentifier{1, 3, 14, 3, 2, 26}

type ocspCertID struct {
	HashAlgorithm pkix.AlgorithmIdentifier
	NameHash      []byte
	IssuerKeyHash []byte
	SerialNumber  *big.Int
}

type ocspRevokedInfo struct {
	RevocationTime time.Time       `asn1:"generalized"`
	Reason         asn1.Enumerated `asn1:"explicit,tag:0,optional"`
}

type ocspSingle struct {
	CertID           ocspCertID
	Good             asn1.Flag        `asn1:"tag:0,optional"`
	Revoked          ocspRevokedInfo  `asn1:"tag:1,optional"`
	Unknown          asn1.Flag        `asn1:"tag:2,optional"`
	ThisUpdate       time.Time        `asn1:"generalized"`
	NextUpdate       time.Time        `asn1:"generalized,explicit,tag:0,optional"`
	SingleExtensions []pkix.Extension `asn1:"explicit,tag:1,optional"`
}

type ocspResponseData struct {
	Version        int `asn1:"optional,default:0,explicit,tag:0"`
	RawResponderID asn1.RawValue
	ProducedAt     time.Time `asn1:"generalized"`
	Responses      []ocspSingle
}

type ocspBasic struct {
	TBS                asn1.RawValue
	SignatureAlgorithm pkix.AlgorithmIdentifier
	Signature          asn1.BitString
	Certificates       []asn1.RawValue `asn1:"explicit,tag:0,optional"`
}

type ocspRespBytes struct {
	ResponseType asn1.ObjectIdentifier
	Response     []byte
}

type ocspResp struct {
	Status   asn1.Enumerated
	Response ocspRespBytes `asn1:"explicit,tag:0,optional"`
}

type ocspRespNoBytes struct {
	Status asn1.Enumerated
}

// OCSP certificate status values used by the encoder.
const (
	StGood = iota
	StRevoked
	StUnknown
)

// OCSPSingleSpec is one SingleResponse.
type OCSPSingleSpec struct {
	Serial        *big.Int
	IssuerName    []byte // RawSubject of issuer
	IssuerKeyHash []byte
	Status        int
	RevokedAt     time.Time
	Reason        int
	ThisUpdate    time.Time
	NextUpdate    time.Time // zero = absent
	Exts          []pkix.Extension
}

// OCSPRespSpec is one whole response.
type OCSPRespSpec struct {
	ProducedAt time.Time
	Singles    []OCSPSingleSpec
	SignerKey  *Key
	// ResponderID: byKey hash of SignerCertForID, or byName if ByName
	ResponderCert *x509.Certificate
	ByName        bool
	Embed         []*x509.Certificate
	FlipSig       bool
	FlipTBS       bool
	PadTo         int // >0: total size of the encoded response in bytes (reached by an extra element of the certs list)
}

func encodeOCSPError(status int) []byte {
	return mustMarshal(ocspRespNoBytes{Status: asn1.Enumerated(status)})
}

// EncodeOCSP builds and signs the response. With PadTo it is brought to that
// exact size: by a further element of the (unsigned) certs list when the
// responder embeds its certificate, else - signature values of constant length
// only, i.e. RSA signers - by a non-critical private single extension.
func EncodeOCSP(s *OCSPRespSpec) []byte {
	out := encodeOCSP(s, 0)
	if s.PadTo <= len(out)+40 || len(s.Embed) > 0 || len(s.Singles) == 0 {
		return out
	}
	if _, isRSA := s.SignerKey.Priv.(*rsa.PrivateKey); !isRSA {
		return out
	}
	n := s.PadTo - len(out) - 24
	for iter := 0; iter < 8 && n > 0; iter++ {
		out = encodeOCSP(s, n)
		if len(out) == s.PadTo {
			break
		}
		n += s.PadTo - len(out)
	}
	return out
}

var oidSimPad = asn1.ObjectIdentifier{1, 3, 6, 1, 4, 1, 99999, 1, 9}

func encodeOCSP(s *OCSPRespSpec, tbsPad int) []byte {
	var rd ocspResponseData
	if s.ByName {
		rd.RawResponderID = asn1.RawValue{Class: asn1.ClassContextSpecific, Tag: 1, IsCompound: true, Bytes: s.ResponderCert.RawSubject}
	} else {
		kh := subjectKeySHA1(s.ResponderCert)
		rd.RawResponderID = asn1.RawValue{Class: asn1.ClassContextSpecific, Tag: 2, IsCompound: true, Bytes: mustMarshal(kh)}
	}
	rd.ProducedAt = s.ProducedAt.UTC().Truncate(time.Second)
	for _, sg := range s.Singles {
		nh := sha1.Sum(sg.IssuerName)
		one := ocspSingle{
			CertID: ocspCertID{
				HashAlgorithm: pkix.AlgorithmIdentifier{Algorithm: oidSHA1, Parameters: asn1.NullRawValue},
				NameHash:      nh[:],
				IssuerKeyHash: sg.IssuerKeyHash,
				SerialNumber:  sg.Serial,
			},
			ThisUpdate:       sg.ThisUpdate.UTC().Truncate(time.Second),
			SingleExtensions: sg.Exts,
		}
		if tbsPad > 0 && len(rd.Responses) == 0 {
			one.SingleExtensions = append(append([]pkix.Extension(nil), sg.Exts...), pkix.Extension{Id: oidSimPad, Value: make([]byte, tbsPad)})
		}
		if !sg.NextUpdate.IsZero() {
			one.NextUpdate = sg.NextUpdate.UTC().Truncate(time.Second)
		}
		switch sg.Status {
		case StGood:
			one.Good = true
		case StUnknown:
			one.Unknown = true
		default:
			one.Revoked = ocspRevokedInfo{RevocationTime: sg.RevokedAt.UTC().Truncate(time.Second), Reason: asn1.Enumerated(sg.Reason)}
		}
		rd.Responses = append(rd.Responses, one)
	}
	tbs := mustMarshal(rd)
	ai, sig := signWith(s.SignerKey, tbs)
	if s.FlipSig {
		sig = append([]byte(nil), sig...)
		sig[len(sig)/2] ^= 0x10
	}
	if s.FlipTBS {
		// flip one bit inside producedAt's seconds digit region is fragile; flip
		// a bit of the last byte of the tbs (inside the last SingleResponse) AFTER
		// signing, so that the signature no longer covers what is sent.
		tbs = append([]byte(nil), tbs...)
		tbs = flipInsideThisUpdate(tbs)
	}
	b := ocspBasic{
		TBS:                asn1.RawValue{FullBytes: tbs},
		SignatureAlgorithm: ai,
		Signature:          asn1.BitString{Bytes: sig, BitLength: 8 * len(sig)},
	}
	for _, c := range s.Embed {
		b.Certificates = append(b.Certificates, asn1.RawValue{FullBytes: c.Raw})
	}
	wrap := func() []byte {
		return mustMarshal(ocspResp{Status: 0, Response: ocspRespBytes{ResponseType: oidOCSPBasic, Response: mustMarshal(b)}})
	}
	out := wrap()
	if s.PadTo > len(out)+16 && len(b.Certificates) > 0 {
		// bring the response to an exact size with a further element of the
		// (unsigned, unauthenticated) certs list, after the responder's own
		// certificate; nothing that is signed changes
		certs := b.Certificates
		n := s.PadTo - len(out) - 12
		for iter := 0; iter < 8 && n > 0; iter++ {
			pad := mustMarshal(struct{ P []byte }{P: make([]byte, n)})
			b.Certificates = append(append([]asn1.RawValue(nil), certs...), asn1.RawValue{FullBytes: pad})
			out = wrap()
			if len(out) == s.PadTo {
				break
			}
			n += s.PadTo - len(out)
		}
	}
	return out
}

// flipInsideThisUpdate changes one digit of the first GeneralizedTime (the
// producedAt field, "YYYYMMDDHHMMSSZ") so that the DER stays well-formed but
// differs from what was signed: the year's last digit is toggled between two
// digits.
func flipInsideThisUpdate(tbs []byte) []byte {
	// find tag 0x18 len 0x0f
	for i := 0; i+17 <= len(tbs); i++ {
		if tbs[i] == 0x18 && tbs[i+1] == 0x0f && tbs[i+16] == 'Z' {
			d := tbs[i+2+3] // 4th digit of the year
			if d == '9' {
				tbs[i+2+3] = '8'
			} else {
				tbs[i+2+3] = d + 1
			}
			return tbs
		}
	}
	panic("no GeneralizedTime in tbs")
}

// invalidityDateExt builds the id-ce-invalidityDate extension.
func invalidityDateExt(t time.Time, malformed bool, critical bool) pkix.Extension {
	if malformed {
		return pkix.Extension{Id: oidInvalidityDate, Critical: critical, Value: []byte{0x18, 0x03, 'b', 'a', 'd'}}
	}
	return pkix.Extension{Id: oidInvalidityDate, Critical: critical, Value: mustMarshalParams(t.UTC().Truncate(time.Second), "generalized")}
}
