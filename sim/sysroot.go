package sim

import (
	"crypto/ecdsa"
	"crypto/x509"
	_ "embed"
	"encoding/pem"
	"os"
	"path/filepath"
)

// A static root that the worker process installs as "host-trusted" (through
// SSL_CERT_FILE, before the system pool is first loaded): it models a machine
// whose system store trusts some timestamping root. The library must never
// fall back to that store: the property speaks of the CALLER's trusted roots.

//go:embed sysroot/sysroot-cert.pem
var sysRootCertPEM []byte

//go:embed sysroot/sysroot-key.pem
var sysRootKeyPEM []byte

var sysRoot *Cert

func init() {
	cb, _ := pem.Decode(sysRootCertPEM)
	x, err := x509.ParseCertificate(cb.Bytes)
	if err != nil {
		panic(err)
	}
	kb, _ := pem.Decode(sysRootKeyPEM)
	k, err := x509.ParsePKCS8PrivateKey(kb.Bytes)
	if err != nil {
		panic(err)
	}
	sysRoot = &Cert{Spec: &CertSpec{CN: "sim host-trusted TSA root", IsCA: true}, X: x, Key: &Key{Name: "sysroot", Kind: "ec256", Priv: k.(*ecdsa.PrivateKey)}}
	// make it host-trusted for this process
	dir, err := os.MkdirTemp("", "verif-sysroot-")
	if err == nil {
		p := filepath.Join(dir, "roots.pem")
		if os.WriteFile(p, sysRootCertPEM, 0o644) == nil {
			os.Setenv("SSL_CERT_FILE", p)
			os.Setenv("SSL_CERT_DIR", dir)
			sysRootDir = dir
		}
	}
}

var sysRootDir string
