package sim

import (
	"crypto"
	"crypto/ecdsa"
	"crypto/rand"
	"crypto/rsa"
	"crypto/x509"
	"errors"
	"fmt"
	"math/big"
	"time"

	"github.com/notaryproject/notation-core-go/signature"
)

// Signing key kinds and their Notary algorithm / hash (independent table).
var signKeyKinds = []string{"ec256", "ec384", "ec521", "rsa2048", "rsa3072", "rsa4096"}

func hashForKeyKind(kind string) crypto.Hash {
	switch kind {
	case "ec256", "rsa2048":
		return crypto.SHA256
	case "ec384", "rsa3072":
		return crypto.SHA384
	}
	return crypto.SHA512
}

// SignerChain is a code-signing chain (leaf, root) for envelope signing.
type SignerChain struct {
	Leaf  *Cert
	Root  *Cert
	Certs []*x509.Certificate
}

// NewSignerChain issues root + leaf. The leaf is valid from nb to na.
func NewSignerChain(ka *keyAllocator, kind string, name string, nb, na time.Time) (*SignerChain, error) {
	root, err := Issue(&CertSpec{CN: name + "-root", Key: ka.get("ec256"), Serial: big.NewInt(1), IsCA: true, KeyUsage: x509.KeyUsageCertSign | x509.KeyUsageCRLSign,
		NotBefore: Epoch.Add(-2 * 365 * 24 * time.Hour), NotAfter: Epoch.Add(30 * 365 * 24 * time.Hour), MaxPathLen: -1}, nil)
	if err != nil {
		return nil, err
	}
	leaf, err := Issue(&CertSpec{CN: name + "-leaf", Key: ka.get(kind), Serial: big.NewInt(2), KeyUsage: x509.KeyUsageDigitalSignature,
		EKU: []x509.ExtKeyUsage{x509.ExtKeyUsageCodeSigning}, NotBefore: nb, NotAfter: na, MaxPathLen: -1}, root)
	if err != nil {
		return nil, err
	}
	return &SignerChain{Leaf: leaf, Root: root, Certs: []*x509.Certificate{leaf.X, root.X}}, nil
}

// Remote signer failure modes.
const (
	RSOK = iota
	RSError
	RSNoCerts
	RSKeySpecError
)

// SimSigner is a remote-style signature.Signer with injectable failures. It
// records the exact bytes it was asked to sign.
type SimSigner struct {
	Chain   *SignerChain
	Mode    int
	Calls   int
	Payload [][]byte
	// OnSign, if set, runs inside Sign before the signature is produced
	// (re-entrant use of the object that is being signed with).
	OnSign func()
	// Latency is how long (fake time) the remote signing service takes.
	Latency time.Duration
	// KeySpecLatency is how long every KeySpec() call takes.
	KeySpecLatency time.Duration
}

func (s *SimSigner) KeySpec() (signature.KeySpec, error) {
	if s.KeySpecLatency > 0 {
		time.Sleep(s.KeySpecLatency)
	}
	if s.Mode == RSKeySpecError {
		return signature.KeySpec{}, errors.New("sim: remote signer cannot describe its key")
	}
	return signature.ExtractKeySpec(s.Chain.Leaf.X)
}

func (s *SimSigner) Sign(payload []byte) ([]byte, []*x509.Certificate, error) {
	s.Calls++
	s.Payload = append(s.Payload, append([]byte(nil), payload...))
	switch s.Mode {
	case RSError:
		return nil, nil, errors.New("sim: remote signer unavailable")
	}
	if s.Latency > 0 {
		time.Sleep(s.Latency)
	}
	if s.OnSign != nil {
		f := s.OnSign
		s.OnSign = nil
		f()
	}
	h := hashForKeyKind(s.Chain.Leaf.Key.Kind)
	hh := h.New()
	hh.Write(payload)
	digest := hh.Sum(nil)
	var sig []byte
	switch k := s.Chain.Leaf.Key.Priv.(type) {
	case *rsa.PrivateKey:
		var err error
		sig, err = rsa.SignPSS(rand.Reader, k, h, digest, &rsa.PSSOptions{SaltLength: rsa.PSSSaltLengthEqualsHash})
		if err != nil {
			return nil, nil, err
		}
	case *ecdsa.PrivateKey:
		r, ss, err := ecdsa.Sign(rand.Reader, k, digest)
		if err != nil {
			return nil, nil, err
		}
		n := (k.Curve.Params().BitSize + 7) / 8
		sig = make([]byte, 2*n)
		r.FillBytes(sig[:n])
		ss.FillBytes(sig[n:])
	default:
		return nil, nil, fmt.Errorf("sim: key type")
	}
	if s.Mode == RSNoCerts {
		return sig, nil, nil
	}
	return sig, s.Chain.Certs, nil
}
