package sim

import (
	"crypto/x509"
	"encoding/asn1"
	"fmt"
	"math/big"
	"sync"
	"time"
)

// Construction self-check (DESIGN 4.1): every response the simulator labels is
// re-examined with the standard library only (encoding/asn1, crypto/x509) —
// never with the packages under test — and the label must agree with what this
// independent examination finds. A disagreement is a harness bug (exit 2),
// never a verdict about the library.

var (
	selfCheckMu   sync.Mutex // taken on the failure path only
	selfCheckErrs []string
)

func selfCheckFail(f string, a ...any) {
	selfCheckMu.Lock()
	defer selfCheckMu.Unlock()
	if len(selfCheckErrs) < 10 {
		selfCheckErrs = append(selfCheckErrs, fmt.Sprintf(f, a...))
	}
}

// takeSelfCheckErrs returns and clears the recorded disagreements.
func takeSelfCheckErrs() []string {
	selfCheckMu.Lock()
	defer selfCheckMu.Unlock()
	e := selfCheckErrs
	selfCheckErrs = nil
	return e
}

// selfCheckSampled decides from static properties of the exchange (no shared
// counter: that would be a data race between library goroutines) whether this
// response is re-examined.
func selfCheckSampled(x *Exchange, n int) bool {
	return (x.CertPos*7+x.SrcIdx*3+n+int(x.Latency/time.Millisecond))%6 == 0
}

func sigAlgFromOID(o asn1.ObjectIdentifier) x509.SignatureAlgorithm {
	switch o.String() {
	case "1.2.840.10045.4.3.2":
		return x509.ECDSAWithSHA256
	case "1.2.840.10045.4.3.3":
		return x509.ECDSAWithSHA384
	case "1.2.840.10045.4.3.4":
		return x509.ECDSAWithSHA512
	case "1.2.840.113549.1.1.11":
		return x509.SHA256WithRSA
	}
	return x509.UnknownSignatureAlgorithm
}

type indepOCSP struct {
	Success    bool
	Authentic  bool
	HasSerial  bool
	Status     int
	NextUpdate time.Time
}

// examineOCSP decodes and verifies a response independently.
func examineOCSP(der []byte, serial *big.Int, issuer *x509.Certificate) (r indepOCSP, err error) {
	var outer struct {
		Status   asn1.Enumerated
		Response ocspRespBytes `asn1:"optional,explicit,tag:0"`
	}
	if rest, e := asn1.Unmarshal(der, &outer); e != nil || len(rest) != 0 {
		return r, fmt.Errorf("outer: %v", e)
	}
	if outer.Status != 0 {
		return r, nil
	}
	r.Success = true
	rb := outer.Response
	var basic struct {
		TBS       asn1.RawValue
		Algorithm struct {
			Algorithm  asn1.ObjectIdentifier
			Parameters asn1.RawValue `asn1:"optional"`
		}
		Signature asn1.BitString
		Certs     []asn1.RawValue `asn1:"explicit,tag:0,optional"`
	}
	if _, e := asn1.Unmarshal(rb.Response, &basic); e != nil {
		return r, fmt.Errorf("basic: %v", e)
	}
	alg := sigAlgFromOID(basic.Algorithm.Algorithm)
	sig := basic.Signature.RightAlign()
	if len(basic.Certs) > 0 {
		c, e := x509.ParseCertificate(basic.Certs[0].FullBytes)
		if e != nil {
			return r, fmt.Errorf("embedded cert: %v", e)
		}
		authorised := c.Equal(issuer)
		if !authorised && issuer.CheckSignature(c.SignatureAlgorithm, c.RawTBSCertificate, c.Signature) == nil {
			for _, eku := range c.ExtKeyUsage {
				if eku == x509.ExtKeyUsageOCSPSigning {
					authorised = true
				}
			}
		}
		r.Authentic = authorised && c.CheckSignature(alg, basic.TBS.FullBytes, sig) == nil
	} else {
		r.Authentic = issuer.CheckSignature(alg, basic.TBS.FullBytes, sig) == nil
	}
	var rd ocspResponseData
	if _, e := asn1.Unmarshal(basic.TBS.FullBytes, &rd); e != nil {
		return r, fmt.Errorf("tbs: %v", e)
	}
	for _, s := range rd.Responses {
		if s.CertID.SerialNumber.Cmp(serial) == 0 {
			r.HasSerial = true
			switch {
			case bool(s.Good):
				r.Status = StGood
			case bool(s.Unknown):
				r.Status = StUnknown
			default:
				r.Status = StRevoked
			}
			r.NextUpdate = s.NextUpdate
			break
		}
	}
	return r, nil
}

// selfCheckOCSP compares the label of a served response with the independent
// examination.
func selfCheckOCSP(der []byte, sv *OCSPServed, serial *big.Int, issuer *x509.Certificate) {
	r, err := examineOCSP(der, serial, issuer)
	if err != nil {
		selfCheckFail("OCSP response of behaviour %s is not decodable by the independent examiner: %v", sv.Content, err)
		return
	}
	c := sv.Content
	if c.ErrStatus != 0 {
		if r.Success {
			selfCheckFail("label says error status %d, examiner sees a successful response", c.ErrStatus)
		}
		return
	}
	labelAuth := c.Signer == SgIssuer || c.Signer == SgDelegate
	if r.Authentic != labelAuth {
		selfCheckFail("label signer=%s (authentic=%v) but independent verification says authentic=%v", signerNames[c.Signer], labelAuth, r.Authentic)
	}
	if r.HasSerial != sv.SerialMatch {
		selfCheckFail("label serial_match=%v but examiner finds serial present=%v (%s)", sv.SerialMatch, r.HasSerial, c)
	}
	if r.HasSerial && c.Signer != SgFlipTBS {
		if r.Status != c.Status {
			selfCheckFail("label status %d but examiner decodes %d (%s)", c.Status, r.Status, c)
		}
		if !r.NextUpdate.Equal(sv.NextUpdate) {
			selfCheckFail("label nextUpdate %v but examiner decodes %v (%s)", sv.NextUpdate, r.NextUpdate, c)
		}
	}
}

// selfCheckCRL compares a CRL spec with what crypto/x509 parses and verifies.
func selfCheckCRL(s *CRLSpec, issuer *x509.Certificate) {
	rl, err := x509.ParseRevocationList(s.DER)
	if err != nil {
		selfCheckFail("own CRL does not parse: %v", err)
		return
	}
	verr := rl.CheckSignatureFrom(issuer)
	issuerCanSign := issuer.KeyUsage == 0 || issuer.KeyUsage&x509.KeyUsageCRLSign != 0
	labelAuth := s.SignerKind == "issuer" && issuerCanSign
	if (verr == nil) != labelAuth {
		selfCheckFail("CRL label signer=%s issuerCanSign=%v but independent verification error is %v", s.SignerKind, issuerCanSign, verr)
	}
	if !rl.NextUpdate.Equal(s.NextUpdate) {
		selfCheckFail("CRL label nextUpdate %v, parsed %v", s.NextUpdate, rl.NextUpdate)
	}
	if (rl.Number == nil) != (s.Number < 0) || (rl.Number != nil && rl.Number.Int64() != s.Number) {
		selfCheckFail("CRL label number %d, parsed %v", s.Number, rl.Number)
	}
	if len(rl.RevokedCertificateEntries) != len(s.Entries) {
		selfCheckFail("CRL label has %d entries, parsed %d", len(s.Entries), len(rl.RevokedCertificateEntries))
		return
	}
	for i, e := range rl.RevokedCertificateEntries {
		want := s.Entries[i]
		if e.SerialNumber.Cmp(want.Serial) != 0 {
			selfCheckFail("CRL entry %d serial differs", i)
		}
		wr := want.Reason
		if wr < 0 {
			wr = 0
		}
		if e.ReasonCode != wr {
			selfCheckFail("CRL entry %d reason label %d parsed %d", i, want.Reason, e.ReasonCode)
		}
		if !e.RevocationTime.Equal(want.RevTime.UTC().Truncate(time.Second)) {
			selfCheckFail("CRL entry %d revocation time differs", i)
		}
	}
}
