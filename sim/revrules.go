package sim

import (
	"errors"
	"fmt"
	"strings"

	"github.com/notaryproject/notation-core-go/revocation/result"
)

// Violation is one failed oracle rule.
type Violation struct {
	Prop string `json:"property"`
	Rule string `json:"rule"`
	Sig  string `json:"signature"`
	Msg  string `json:"message"`
}

// Stats accumulates reach counters of a batch.
type Stats struct {
	Runs      int64
	Bubbles   int64
	SimTimeMs int64
	Faults    map[string]int64
	Behav     map[string]int64
	Probes    map[string]int64
	RuleAnte  map[string]int64
	Vacuous   map[string]int64
	Shapes    map[string]struct{}
	Interleav map[string]struct{}
}

func NewStats() *Stats {
	return &Stats{Faults: map[string]int64{}, Behav: map[string]int64{}, Probes: map[string]int64{}, RuleAnte: map[string]int64{},
		Vacuous: map[string]int64{}, Shapes: map[string]struct{}{}, Interleav: map[string]struct{}{}}
}

type ruleCtx struct {
	props map[string]bool
	st    *Stats
	out   []Violation
	ante  map[string]bool   // rules whose antecedent was true in this run
	retag map[string]string // property id -> rule id under which its failures are reported
}

func (rc *ruleCtx) on(prop string) bool { return rc.props[prop] }

func (rc *ruleCtx) anteTrue(rule string) {
	rc.st.RuleAnte[rule]++
	rc.ante[rule] = true
}

func (rc *ruleCtx) fail(rule, sig, msg string) {
	if to, ok := rc.retag[rule[:3]]; ok {
		sig = rule + "/" + sig
		msg = "(" + rule + ") " + msg
		rule = to
	}
	rc.out = append(rc.out, Violation{Prop: rule[:3], Rule: rule, Sig: sig, Msg: msg})
}

func hasAlt(s *SrcView, pred func(string) bool) bool {
	for _, a := range s.Alts {
		if pred(a) {
			return true
		}
	}
	return false
}

func onlyAlts(s *SrcView, pred func(string) bool) bool {
	if len(s.Alts) == 0 {
		return false
	}
	for _, a := range s.Alts {
		if !pred(a) {
			return false
		}
	}
	return true
}

func findSrc(list []*SrcView, url string) *SrcView {
	for _, s := range list {
		if s.URL == url {
			return s
		}
	}
	return nil
}

func srcSig(s *SrcView) string {
	// strip volatile parts: keep the behaviour description
	return s.Desc
}

// evalRevCall applies every enabled rule to one call.
func (sc *RevScenario) evalRevCall(rc *ruleCtx, obs *RevObs, co *CallObs) {
	w := co.World
	// the rules speak of the signing time THIS caller supplied
	if len(w.RepST) > 0 {
		savedHas, savedST := w.HasST, w.ST
		w.HasST, w.ST = w.repST(co.Rep)
		defer func() { w.HasST, w.ST = savedHas, savedST }()
	}
	// ---------- C12.R4: invalid or empty chain ----------
	if w.ChainDefect != ChainOK && w.chainActuallyInvalid() {
		if rc.on("C12") && co.Panicked && sc.PanicAt == "" {
			rc.anteTrue("C12.R4")
			rc.fail("C12.R4", "panic/defect="+chainDefectNames[w.ChainDefect], fmt.Sprintf("invalid chain (%s) via %s: want InvalidChainError, the call panicked: %v", chainDefectNames[w.ChainDefect], entryNames[w.Entry], co.PanicVal))
		}
		if rc.on("C12") && !co.Panicked {
			rc.anteTrue("C12.R4")
			var ice result.InvalidChainError
			if co.Err == nil || !errors.As(co.Err, &ice) || co.Results != nil {
				rc.fail("C12.R4", "defect="+chainDefectNames[w.ChainDefect], fmt.Sprintf("invalid chain (%s) via %s: want InvalidChainError and nil results, got err=%v results=%d", chainDefectNames[w.ChainDefect], entryNames[w.Entry], co.Err, len(co.Results)))
			}
			for _, x := range obs.Net.All() {
				if x.Rec.Begun && x.Rec.CallerID == w.callerKeyOf(co.Rep) && strings.HasSuffix(hostOf(x.URL), fmt.Sprintf(".w%d.sim", w.ID)) {
					rc.fail("C12.R4", "request_on_invalid_chain", "invalid chain but a request was sent to "+x.URL)
					break
				}
			}
		}
		return
	}
	if co.Panicked {
		// injected panics are judged by C17.R4, hostile-input panics by C09.R1;
		// for the properties that promise results for every valid chain an
		// uninjected panic is a failure to deliver them
		if sc.PanicAt == "" {
			if rc.on("C06") {
				rc.anteTrue("C06.R4")
				rc.fail("C06.R4", panicSig(co.PanicVal), fmt.Sprintf("valid chain via %s: the call panicked instead of returning results: %v", entryNames[w.Entry], co.PanicVal))
			}
			if rc.on("C12") {
				rc.anteTrue("C12.R1")
				rc.fail("C12.R1", panicSig(co.PanicVal), fmt.Sprintf("valid chain via %s: the call panicked instead of returning results: %v", entryNames[w.Entry], co.PanicVal))
			}
			if rc.on("C05") {
				rc.anteTrue("C05.R2")
				rc.fail("C05.R2", panicSig(co.PanicVal), fmt.Sprintf("valid chain via %s: the call panicked instead of reporting Unknown: %v", entryNames[w.Entry], co.PanicVal))
			}
		}
		return
	}
	n := len(w.Certs)
	// ---------- C06.R4 / C12.R1 ----------
	okShape := co.Err == nil && len(co.Results) == n
	if okShape {
		for _, r := range co.Results {
			if r == nil {
				okShape = false
			}
		}
	}
	if rc.on("C06") {
		rc.anteTrue("C06.R4")
		if !okShape {
			rc.fail("C06.R4", "shape", fmt.Sprintf("valid chain of %d via %s: err=%v, %d results (nil slot or wrong length)", n, entryNames[w.Entry], co.Err, len(co.Results)))
		}
	}
	if rc.on("C12") {
		rc.anteTrue("C12.R1")
		if !okShape {
			rc.fail("C12.R1", "shape", fmt.Sprintf("valid chain of %d via %s: err=%v, %d results (nil slot or wrong length)", n, entryNames[w.Entry], co.Err, len(co.Results)))
		}
	}
	if !okShape {
		return
	}
	views := sc.buildViews(obs, co)
	for _, v := range views {
		sc.evalCert(rc, obs, co, v)
	}
	// ---------- C11.R7 ----------
	if w.Entry == ECheckStatus && rc.on("C11") {
		rc.anteTrue("C11.R7")
		for _, cp := range w.Certs {
			for _, s := range cp.CRL {
				if s.XBase[co.Rep].Rec.Begun {
					rc.fail("C11.R7", "crl_contacted", "ocsp.CheckStatus contacted CRL URL "+s.URL)
				}
				for _, xd := range s.XDelta {
					if xd[co.Rep].Rec.Begun {
						rc.fail("C11.R7", "crl_contacted", "ocsp.CheckStatus contacted delta CRL URL "+xd[co.Rep].URL)
					}
				}
			}
		}
		// a further request to one of the certificate's own responders (a
		// retry) is still OCSP; anything else is not
		own := map[string]bool{}
		for _, cp := range w.Certs {
			for _, s := range cp.OCSP {
				own[hostOf(s.URL)] = true
			}
		}
		for _, u := range obs.Net.Unplanned {
			if own[hostOf(u.URL)] {
				rc.st.Probes["ocsp_request_beyond_planned_attempts"]++
				continue
			}
			if h := hostOf(u.URL); strings.HasSuffix(h, ".sim") && !strings.HasSuffix(h, fmt.Sprintf(".w%d.sim", w.ID)) && h != "redirect.sim" {
				// a host of another world of this run: that world's business
				continue
			}
			rc.fail("C11.R7", "unplanned_contact", "ocsp.CheckStatus contacted unplanned URL "+u.URL)
		}
	}
}

// chainActuallyInvalid: some defects are no-ops for short chains.
func (w *World) chainActuallyInvalid() bool {
	switch w.ChainDefect {
	case ChainOK:
		return false
	case ChainLeafIsCA:
		return true
	case ChainWrongPurpose:
		return true
	case ChainEmpty:
		return true
	case ChainDupLeaf:
		return true
	default:
		return true
	}
}

func (sc *RevScenario) evalCert(rc *ruleCtx, obs *RevObs, co *CallObs, v *CertView) {
	w := v.W
	r := v.Res
	entry := entryNames[w.Entry]
	tag := fmt.Sprintf("cert %d of %d via %s", v.CP.Pos, len(w.Certs), entry)
	crl := v.CRL
	if !v.UsesCR {
		crl = nil
	}
	// ---------- C12.R3: root ----------
	if v.IsRoot {
		if rc.on("C12") {
			rc.anteTrue("C12.R3")
			if r.Result != result.ResultNonRevokable {
				rc.fail("C12.R3", "root_result", fmt.Sprintf("%s: root result is %s, want NonRevokable", tag, r.Result))
			}
			for _, s := range append(append([]*SrcView(nil), v.OCSP...), v.CRL...) {
				if s.Contacted {
					rc.fail("C12.R3", "root_contacted", fmt.Sprintf("%s: root's URL %s was contacted", tag, s.URL))
				}
			}
		}
		return
	}
	// ---------- C12.R2: positional ----------
	own := map[string]bool{}
	for _, s := range v.OCSP {
		own[s.URL] = true
	}
	for _, s := range crl {
		own[s.URL] = true
	}
	if len(own) == 0 {
		// a certificate without any source the entry point uses: the single
		// NonRevokable entry carries no server
		own[""] = true
	}
	if rc.on("C12") {
		rc.anteTrue("C12.R2")
		for _, sr := range r.ServerResults {
			if sr == nil {
				rc.fail("C12.R2", "nil_server_result", tag+": nil ServerResult")
				continue
			}
			if !own[sr.Server] {
				rc.fail("C12.R2", "foreign_url", fmt.Sprintf("%s: server result names %q which is not one of this certificate's URLs", tag, sr.Server))
			}
		}
		sc.checkShape(rc, v, tag)
	}
	vac := false
	for _, s := range v.OCSP {
		if s.Vacuous || s.Alts == nil {
			vac = true
		}
	}
	for _, s := range crl {
		if s.Vacuous || s.Alts == nil {
			vac = true
		}
	}
	if vac {
		rc.st.Vacuous["DONTCARE"]++
		return
	}
	for _, s := range append(append([]*SrcView(nil), v.OCSP...), crl...) {
		if len(s.Alts) > 1 {
			rc.st.Vacuous["EITHER"]++
		}
	}
	good := func(a string) bool { return isGoodClass(a) }
	isRev := func(a string) bool { return a == ClRevoked }
	weak := func(a string) bool { return a == ClNone || a == ClUnknownSt || a == ClNotContacted }
	decisive := func(a string) bool { return isGoodClass(a) || a == ClRevoked || a == ClUnknownSt }

	// ---------- C04 ----------
	if rc.on("C04") {
		for _, sr := range r.ServerResults {
			if sr == nil || sr.RevocationMethod != result.RevocationMethodOCSP || sr.Result != result.ResultOK {
				continue
			}
			rc.anteTrue("C04.R1")
			s := findSrc(v.OCSP, sr.Server)
			if s == nil {
				rc.fail("C04.R1", "ok_from_unknown_url", fmt.Sprintf("%s: OK attributed to OCSP URL %q that is not one of the certificate's responders", tag, sr.Server))
				continue
			}
			// a certificate may list the same responder URL more than once:
			// the entry is justified if any of those contacts delivered Good
			justified := false
			for _, c := range v.OCSP {
				if c.URL == sr.Server && (c.Contacted || c.Shared) && hasAlt(c, good) {
					justified = true
				}
			}
			if !justified {
				rc.fail("C04.R1", srcSig(s), fmt.Sprintf("%s: reported OK on the strength of OCSP responder %s whose delivery was %v (%s)", tag, s.URL, s.Alts, s.Desc))
			}
		}
		if r.Result == result.ResultOK && r.RevocationMethod == result.RevocationMethodOCSP {
			rc.anteTrue("C04.R1")
			anyGood := false
			for _, s := range v.OCSP {
				if (s.Contacted || s.Shared) && hasAlt(s, good) {
					anyGood = true
				}
			}
			if !anyGood {
				rc.fail("C04.R1", "ok_without_good_delivery/"+descAll(v.OCSP), fmt.Sprintf("%s: Result OK via OCSP but no responder delivered an authentic current Good answer: %s", tag, viewDesc(v.OCSP)))
			}
		}
		// R2
		for i, s := range v.OCSP {
			if !s.Contacted || !onlyAlts(s, isRev) {
				continue
			}
			earlier := false
			for _, e := range v.OCSP[:i] {
				if (e.Contacted || e.Shared) && hasAlt(e, decisive) {
					earlier = true
				}
			}
			if earlier {
				continue
			}
			rc.anteTrue("C04.R2")
			if r.Result != result.ResultRevoked {
				rc.fail("C04.R2", srcSig(s), fmt.Sprintf("%s: responder %s delivered an authentic current Revoked answer (%s) but the result is %s", tag, s.URL, s.Desc, fmtResult(r)))
			}
		}
		// R3
		if len(v.OCSP) > 0 {
			allWeak := true
			for _, s := range v.OCSP {
				if !onlyAlts(s, weak) {
					allWeak = false
				}
			}
			if allWeak {
				rc.anteTrue("C04.R3")
				for _, sr := range r.ServerResults {
					if sr != nil && sr.RevocationMethod == result.RevocationMethodOCSP && sr.Result == result.ResultOK {
						rc.fail("C04.R3", "ok_entry/"+descAll(v.OCSP), fmt.Sprintf("%s: OCSP entry OK although every responder delivery was inconclusive: %s", tag, viewDesc(v.OCSP)))
					}
				}
				if w.Entry == ECheckStatus && r.Result == result.ResultOK {
					rc.fail("C04.R3", "ok_result/"+descAll(v.OCSP), fmt.Sprintf("%s: Result OK although every responder delivery was inconclusive: %s", tag, viewDesc(v.OCSP)))
				}
			}
		}
	}
	crlDecided := r.RevocationMethod == result.RevocationMethodCRL || r.RevocationMethod == result.RevocationMethodOCSPFallbackCRL
	// reference CRL phase
	var cps []crlPhase
	if len(crl) > 0 {
		refCRL(crl, 0, nil, false, &cps)
	}
	crlAllows := func(res result.Result) bool {
		for _, c := range cps {
			if c.res == res && !(c.missing && res == result.ResultOK) {
				return true
			}
		}
		return false
	}
	// ---------- C05 ----------
	if rc.on("C05") && len(crl) > 0 {
		if r.Result == result.ResultOK && crlDecided {
			rc.anteTrue("C05.R1")
			for _, s := range crl {
				if !s.Contacted {
					rc.fail("C05.R1", "point_not_fetched", fmt.Sprintf("%s: OK on the strength of CRLs but distribution point %s was never fetched", tag, s.URL))
				} else if !hasAlt(s, func(a string) bool { return a == ClGood }) {
					rc.fail("C05.R1", srcSig(s), fmt.Sprintf("%s: OK on the strength of CRLs but distribution point %s delivered %v (%s)", tag, s.URL, s.Alts, s.Desc))
				}
			}
		}
		anyContacted := false
		for _, s := range crl {
			if s.Contacted {
				anyContacted = true
			}
		}
		if anyContacted && crlDecided {
			rc.anteTrue("C05.R2")
			if !crlAllows(r.Result) {
				rule := "C05.R2"
				if v.CP.Freshest {
					rule = "C05.R3"
				}
				rc.fail(rule, descAll(crl), fmt.Sprintf("%s: CRL phase result %s not allowed by the distribution points' deliveries: %s", tag, r.Result, viewDesc(crl)))
			}
		}
		if v.CP.Freshest && anyContacted {
			rc.anteTrue("C05.R3")
		}
	}
	// ---------- C06 ----------
	if rc.on("C06") {
		switch r.Result {
		case result.ResultOK:
			rc.anteTrue("C06.R1")
			okOCSP := false
			for _, s := range v.OCSP {
				if s.Contacted && hasAlt(s, good) {
					okOCSP = true
				}
			}
			okCRL := len(crl) > 0
			for _, s := range crl {
				if !s.Contacted || !hasAlt(s, func(a string) bool { return a == ClGood }) {
					okCRL = false
				}
			}
			if !okOCSP && !okCRL {
				rc.fail("C06.R1", descAll(v.OCSP)+"|"+descAll(crl), fmt.Sprintf("%s: Result OK but no source delivered authentic evidence of good standing. OCSP: %s CRL: %s", tag, viewDesc(v.OCSP), viewDesc(crl)))
			}
		case result.ResultRevoked:
			rc.anteTrue("C06.R2")
			ev := false
			for _, s := range v.OCSP {
				if s.Contacted && hasAlt(s, isRev) {
					ev = true
				}
			}
			for _, s := range crl {
				if s.Contacted && hasAlt(s, isRev) {
					ev = true
				}
			}
			if !ev {
				rc.fail("C06.R2", descAll(v.OCSP)+"|"+descAll(crl), fmt.Sprintf("%s: Result Revoked but no source delivered authentic evidence of revocation. OCSP: %s CRL: %s", tag, viewDesc(v.OCSP), viewDesc(crl)))
			}
		case result.ResultNonRevokable:
			rc.anteTrue("C06.R3")
			if len(v.OCSP) > 0 || len(crl) > 0 {
				rc.fail("C06.R3", "nonrevokable_with_sources", fmt.Sprintf("%s: Result NonRevokable but the certificate names %d responders and %d distribution points", tag, len(v.OCSP), len(crl)))
			}
		}
	}
	// ---------- reference outcome (C10, C11) ----------
	outs, vacuous := RefCert(v)
	if vacuous {
		rc.st.Vacuous["DONTCARE"]++
		return
	}
	matched := false
	checkMethod := w.Entry != ECheckStatus
	for _, o := range outs {
		if matchOutcome(v, o, checkMethod) {
			matched = true
		}
	}
	var ops []ocspPhase
	if len(v.OCSP) > 0 {
		refOCSP(v.OCSP, 0, nil, false, &ops)
	}
	ocspMayBeUnknown, ocspMustBeDecisive := len(v.OCSP) == 0, len(v.OCSP) > 0
	ocspCouldBeDecisive := false
	for _, o := range ops {
		if o.res == result.ResultUnknown {
			ocspMayBeUnknown = true
			ocspMustBeDecisive = false
		} else {
			ocspCouldBeDecisive = true
		}
	}
	if rc.on("C10") && len(crl) > 0 && (len(v.OCSP) == 0 || (ocspMayBeUnknown && !ocspCouldBeDecisive)) {
		// authentic current lists only: every alt set derives from the entries
		clean := true
		for _, s := range crl {
			if !s.Contacted || hasAlt(s, func(a string) bool { return a == ClNotContacted }) {
				clean = false
			}
		}
		if clean {
			rc.anteTrue("C10.R1")
			if !crlAllows(r.Result) {
				rc.fail("C10.R1", descAll(crl)+fmt.Sprintf("/st=%v", w.HasST), fmt.Sprintf("%s: result %s but the CRL entries imply %s; points: %s signing time: %v", tag, r.Result, phaseResults(cps), viewDesc(crl), w.stArg()))
			}
		}
	}
	if rc.on("C11") {
		// R1 "they are asked": a responder the library itself hung up on - its
		// request ended because the request's context was done although
		// neither the caller had cancelled nor the client's timeout had run
		// out - was not asked
		tc, cancelled := sc.cancelInstant(obs, co)
		for _, src := range v.CP.OCSP {
			if co.Rep >= len(src.X) || src.X[co.Rep] == nil {
				continue
			}
			x := src.X[co.Rep]
			if !x.Rec.Begun || x.Rec.Outcome != "ctx_done" {
				continue
			}
			rc.anteTrue("C11.R1")
			explained := cancelled && !x.Rec.TReturn.Before(tc)
			if sc.OCSPTimeout > 0 && x.Rec.TReturn.Sub(x.Rec.TBegin) >= sc.OCSPTimeout {
				explained = true
			}
			if !explained {
				rc.fail("C11.R1", "responder_hung_up_on", fmt.Sprintf("%s: the request to responder %s was abandoned after %s although the caller had not cancelled and the client's timeout (%s, 0 = none) had not run out", tag, src.URL, x.Rec.TReturn.Sub(x.Rec.TBegin), sc.OCSPTimeout))
			}
		}
		// R1 ordering
		if len(v.OCSP) > 0 && len(crl) > 0 {
			var firstCRL *SrcView
			for _, s := range crl {
				if s.Contacted && (firstCRL == nil || s.TBegin.Before(firstCRL.TBegin)) {
					firstCRL = s
				}
			}
			if firstCRL != nil {
				rc.anteTrue("C11.R1")
				for _, s := range v.OCSP {
					if s.Contacted && s.TBegin.After(firstCRL.TBegin) {
						rc.fail("C11.R1", "crl_before_ocsp", fmt.Sprintf("%s: CRL %s was fetched at %v before OCSP responder %s was asked at %v", tag, firstCRL.URL, firstCRL.TBegin.Sub(Epoch), s.URL, s.TBegin.Sub(Epoch)))
					}
				}
				// R2
				rc.anteTrue("C11.R2")
				if !ocspMayBeUnknown {
					rc.fail("C11.R2", "crl_after_decisive_ocsp/"+descAll(v.OCSP), fmt.Sprintf("%s: CRL %s was fetched although OCSP was decisive: %s", tag, firstCRL.URL, viewDesc(v.OCSP)))
				}
			}
		}
		if ocspMustBeDecisive {
			rc.anteTrue("C11.R3")
			for _, s := range crl {
				if s.Contacted {
					rc.fail("C11.R3", "crl_fetched_after_final_ocsp", fmt.Sprintf("%s: OCSP answer was final (%s) but CRL %s was fetched", tag, viewDesc(v.OCSP), s.URL))
				}
			}
		}
		rule := "C11.R4"
		switch {
		case len(v.OCSP) == 0 && len(crl) == 0:
			rule = "C11.R6"
		case len(v.OCSP) == 0:
			rule = "C11.R5"
		case ocspMustBeDecisive || len(crl) == 0:
			rule = "C11.R3"
		}
		rc.anteTrue(rule)
		if !matched {
			rc.fail(rule, descAll(v.OCSP)+"|"+descAll(crl), fmt.Sprintf("%s: got %s; the statement allows %s. OCSP: %s CRL: %s", tag, fmtResult(r), outsDesc(outs), viewDesc(v.OCSP), viewDesc(crl)))
		}
	}
}

func phaseResults(cps []crlPhase) string {
	var s []string
	for _, c := range cps {
		s = append(s, c.res.String())
	}
	return "{" + strings.Join(s, ",") + "}"
}

func outsDesc(outs []RefOutcome) string {
	var s []string
	for i, o := range outs {
		if i >= 4 {
			s = append(s, "...")
			break
		}
		s = append(s, o.String())
	}
	return "{" + strings.Join(s, " | ") + "}"
}

func viewDesc(list []*SrcView) string {
	var s []string
	for _, v := range list {
		c := "contacted"
		if !v.Contacted {
			c = "not contacted"
		}
		s = append(s, fmt.Sprintf("[%s %s %v: %s]", v.URL, c, v.Alts, v.Desc))
	}
	return strings.Join(s, " ")
}

func descAll(list []*SrcView) string {
	var s []string
	for _, v := range list {
		s = append(s, v.Desc)
	}
	return strings.Join(s, ";")
}

// checkShape enforces C12.R5 / R6: the verdict agrees with the server results
// as documented, independent of what was delivered.
func (sc *RevScenario) checkShape(rc *ruleCtx, v *CertView, tag string) {
	r := v.Res
	rc.anteTrue("C12.R5")
	bad := func(why string) {
		rc.fail("C12.R5", why, fmt.Sprintf("%s: %s: %s", tag, why, fmtResult(r)))
	}
	var ocspE, crlE []*result.ServerResult
	for _, sr := range r.ServerResults {
		if sr == nil {
			return
		}
	}
	checkOCSPPart := func(es []*result.ServerResult, must result.Result, final bool) {
		nResp := len(v.OCSP)
		switch {
		case len(es) == 1:
			// one decisive entry (or the only responder's entry)
			if final && es[0].Result != r.Result {
				bad("ocsp_single_entry_differs_from_verdict")
			}
			if es[0].Result == result.ResultNonRevokable {
				bad("ocsp_entry_nonrevokable_for_certificate_with_responders")
			}
			if nResp > 1 && es[0].Result == result.ResultUnknown {
				// a single Unknown entry for several responders must be the
				// DECISIVE kind: an authentic answer with status Unknown. A
				// responder that merely failed does not end the consultation.
				decisiveSeen, known := false, false
				for _, src := range v.OCSP {
					if src.URL == es[0].Server {
						known = true
						if src.Vacuous || src.Alts == nil || hasAlt(src, func(a string) bool { return a == ClUnknownSt || a == ClEither || a == ClDontCare }) {
							decisiveSeen = true
						}
					}
				}
				if known && !decisiveSeen {
					bad(fmt.Sprintf("ocsp_single_undecisive_unknown_entry_for_%d_responders", nResp))
				}
			}
		case len(es) == nResp:
			for _, e := range es {
				if e.Result != result.ResultUnknown {
					bad("ocsp_all_entries_must_be_unknown")
					break
				}
			}
			if final && r.Result != result.ResultUnknown {
				bad("ocsp_all_unknown_but_verdict_differs")
			}
		default:
			bad(fmt.Sprintf("ocsp_entry_count_%d_for_%d_responders", len(es), nResp))
		}
	}
	checkCRLPart := func(es []*result.ServerResult) {
		nDP := len(v.CRL)
		switch {
		case r.Result == result.ResultOK:
			if len(es) != nDP {
				bad(fmt.Sprintf("crl_ok_needs_one_entry_per_point_got_%d_of_%d", len(es), nDP))
			}
			for _, e := range es {
				if e.Result != result.ResultOK {
					bad("crl_ok_with_non_ok_entry")
					break
				}
			}
		default:
			if len(es) != 1 {
				bad(fmt.Sprintf("crl_non_ok_needs_single_entry_got_%d", len(es)))
			} else if es[0].Result != r.Result {
				bad("crl_single_entry_differs_from_verdict")
			} else if r.Result != result.ResultRevoked && r.Result != result.ResultUnknown {
				bad("crl_single_entry_must_be_revoked_or_unknown_got_" + r.Result.String())
			}
		}
	}
	hasSources := len(v.OCSP) > 0 || (v.UsesCR && len(v.CRL) > 0)
	if r.Result == result.ResultNonRevokable && hasSources {
		bad("nonrevokable_verdict_for_certificate_with_sources")
		return
	}
	switch r.RevocationMethod {
	case result.RevocationMethodOCSP:
		if r.Result == result.ResultNonRevokable {
			break
		}
		checkOCSPPart(r.ServerResults, r.Result, true)
	case result.RevocationMethodCRL:
		if r.Result == result.ResultNonRevokable {
			break
		}
		checkCRLPart(r.ServerResults)
	case result.RevocationMethodOCSPFallbackCRL:
		i := 0
		for i < len(r.ServerResults) && r.ServerResults[i].RevocationMethod == result.RevocationMethodOCSP {
			ocspE = append(ocspE, r.ServerResults[i])
			i++
		}
		crlE = r.ServerResults[i:]
		for _, e := range crlE {
			if e.RevocationMethod != result.RevocationMethodCRL {
				bad("fallback_entries_not_ocsp_then_crl")
				break
			}
		}
		if len(ocspE) == 0 || len(crlE) == 0 {
			bad("fallback_needs_ocsp_and_crl_entries")
			break
		}
		for _, e := range ocspE {
			if e.Result != result.ResultUnknown {
				bad("fallback_with_decisive_ocsp_entry")
				break
			}
		}
		checkOCSPPart(ocspE, result.ResultUnknown, false)
		checkCRLPart(crlE)
	default:
		if r.Result != result.ResultNonRevokable {
			bad("method_unknown_with_verdict_" + r.Result.String())
		}
	}
	rc.anteTrue("C12.R6")
	if r.Result == result.ResultOK {
		for _, e := range r.ServerResults {
			if e.Result == result.ResultRevoked {
				rc.fail("C12.R6", "ok_with_revoked_entry", fmt.Sprintf("%s: verdict OK coexists with a Revoked entry: %s", tag, fmtResult(r)))
			}
		}
	}
	if r.Result == result.ResultNonRevokable && (len(v.OCSP) > 0 || (v.UsesCR && len(v.CRL) > 0)) {
		// covered by C06.R3; shape-wise nothing to add
	}
}
