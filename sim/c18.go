package sim

import (
	"context"
	"crypto/x509"
	"fmt"
	"math/big"
	"net/http"
	"strings"
	"sync"
	"time"

	corecrl "github.com/notaryproject/notation-core-go/revocation/crl"
)

// ---------- C18: histories on one HTTPFetcher + cache + distribution point ----------

// Operation kinds of a fetcher history.
const (
	OpFetch = iota
	OpAdvance
	OpPublish
	OpRestart
	OpTearCache
	OpFetchConc // 2..3 overlapping Fetch calls on the one fetcher (own caller each)
	nC18Ops
)

var c18OpNames = []string{"fetch", "advance_clock", "publish", "restart", "tear_cache", "fetch_concurrently"}

// Advance kinds.
const (
	AdvSmall      = iota // 1..600 s
	AdvBaseMinus1        // to cached base nextUpdate - 1s
	AdvBaseAt            // exactly nextUpdate
	AdvBasePlus1         // nextUpdate + 1s
	AdvDeltaMinus1
	AdvDeltaAt
	AdvDeltaPlus1
	AdvLarge // 30 days
	nAdvKinds
)

var advNames = []string{"small", "base_next-1s", "base_next", "base_next+1s", "delta_next-1s", "delta_next", "delta_next+1s", "large"}

type c18Op struct {
	Kind int
	// fetch
	BaseFault  Fault
	DeltaFault []Fault
	BaseLat    time.Duration
	DeltaLat   []time.Duration
	GetPlan    int // 0 normal, 1 error, 2 forced miss
	SetPlan    int // 0 normal, 1 error, 2 lost
	CancelKind int // 0 none, 1 before, 2 after CancelMs
	CancelMs   int
	// advance
	Adv    int
	SmallS int
	// publish
	PubBase, PubDelta bool
	PubRollback       bool // the distribution point falls back to its previous publication (a lagging mirror takes over)
	// tear
	TearKind int // 0 old delta with current base, 1 drop delta, 2 old base with current delta
	// concurrent group: every member is a fetch plan of its own; StartMs is the
	// member's start offset, PubAtMs >= 0 a publication in the middle of the group
	Conc    []c18Op
	StartMs int
	PubAtMs int
}

type c18Scenario struct {
	NoCache     bool
	CtxAware    bool // the cache refuses operations whose context is done
	NoNumber    int  // 0 every list carries a CRL number; 1 none does; 2 every second publication's base list does not; 3 delta lists do not
	WrapMiss    bool
	Discard     bool
	URLKind     int
	FrShape     int
	NDelta      int
	DeltaKinds  []int // URL kind per delta location
	BaseValidS  int   // seconds; 0 = nextUpdate absent
	DeltaValidS int
	Timeout     time.Duration
	Ops         []c18Op
}

type c18Pub struct {
	base   *CRLSpec
	delta  *CRLSpec   // the delta served by location 0 (also what the cache-tearing uses)
	deltas []*CRLSpec // every advertised location serves its own, distinguishable copy
}

type c18World struct {
	sc      *c18Scenario
	ca      *Cert
	baseURL string
	dURLs   []string
	num     int64
	baseNum int64 // the number of the current base list, whether or not it carries it
	cur     c18Pub
	hist    []c18Pub
	reg     map[string]*CRLSpec
}

func genC18(t *Tape, hostile bool) *c18Scenario {
	sc := &c18Scenario{}
	sc.NoCache = t.Bool(12)
	sc.Discard = t.Bool(50)
	sc.WrapMiss = t.Bool(35)
	sc.URLKind = t.Weighted(88, 3, 3, 2, 1, 1, 1, 1)
	sc.FrShape = []int{FrURIs, FrAbsent, FrTwoDPs, FrEmptySeq, FrNonURI, FrNoDPName, FrURIThenNonURI, FrMalformed, FrRelativeName, FrNonURIThenURI, FrNamelessThenURIs, FrIssuerOnlyThenURIs, FrBadNameTLV, FrBadURITLV, FrGarbageAfterURI}[t.Weighted(34, 19, 10, 4, 4, 4, 5, 3, 3, 2, 4, 4, 1, 1, 2)]
	sc.NDelta = 1 + t.Weighted(55, 30, 15)
	if sc.FrShape == FrURIThenNonURI || sc.FrShape == FrNonURIThenURI || sc.FrShape == FrGarbageAfterURI {
		sc.NDelta = 1
	}
	for i := 0; i < sc.NDelta; i++ {
		sc.DeltaKinds = append(sc.DeltaKinds, t.Weighted(85, 4, 5, 3, 3))
	}
	sc.BaseValidS = []int{3600, 86400, 600, 0, 7 * 86400}[t.Weighted(35, 30, 15, 10, 10)]
	sc.DeltaValidS = []int{600, 3600, 60, 0, 86400}[t.Weighted(35, 30, 15, 8, 12)]
	sc.Timeout = []time.Duration{5 * time.Second, 0, time.Second}[t.Weighted(60, 20, 20)]
	sc.CtxAware = t.Bool(40)
	if (hostile && t.Bool(35)) || (!hostile && t.Bool(8)) {
		sc.NoNumber = 1 + t.Choose(3)
	}
	n := 1 + t.Weighted(10, 20, 20, 15, 12, 10, 8, 5)
	for i := 0; i < n; i++ {
		op := c18Op{}
		op.Kind = t.Weighted(50, 22, 14, 7, 7, 14)
		if i == 0 {
			op.Kind = OpFetch
		}
		switch op.Kind {
		case OpFetch:
			genFetchPlan(t, sc, &op, hostile)
		case OpFetchConc:
			n := 2 + t.Weighted(70, 30)
			for k := 0; k < n; k++ {
				m := c18Op{Kind: OpFetch}
				genFetchPlan(t, sc, &m, hostile)
				if k > 0 {
					// most members start while an earlier one is still busy
					m.StartMs = []int{0, 1, 50, 700, 2500}[t.Weighted(25, 15, 25, 20, 15)] + t.Choose(40)
				}
				op.Conc = append(op.Conc, m)
			}
			op.PubAtMs = -1
			if t.Bool(30) {
				op.PubAtMs = t.Choose(3000)
				switch t.Weighted(40, 30, 30) {
				case 0:
					op.PubBase, op.PubDelta = true, true
				case 1:
					op.PubDelta = true
				case 2:
					op.PubBase = true
				}
			}
		case OpAdvance:
			op.Adv = t.Weighted(25, 10, 10, 10, 10, 10, 10, 15)
			op.SmallS = 1 + t.Choose(600)
		case OpPublish:
			switch t.Weighted(40, 30, 30, 18) {
			case 0:
				op.PubBase, op.PubDelta = true, true
			case 1:
				op.PubDelta = true
			case 2:
				op.PubBase = true
			case 3:
				op.PubRollback = true
			}
		case OpTearCache:
			op.TearKind = t.Choose(3)
		}
		sc.Ops = append(sc.Ops, op)
	}
	return sc
}

// genFetchPlan draws the plan of one Fetch call (faults, latencies, cache
// plans, cancellation).
func genFetchPlan(t *Tape, sc *c18Scenario, op *c18Op, hostile bool) {
	faulty := t.Bool(40)
	genF := func() Fault {
		if !faulty || !t.Bool(50) {
			return Fault{}
		}
		k := []int{FConnErr, FStall, FStatus, FRedirect, FEmpty, FTruncate, FBodyErr, FBodyStall, FGarbage, FLyingCL}[t.Choose(10)]
		if hostile && t.Bool(4) {
			// 32 MiB bodies cost ~40 ms each: rare
			k = FOversize + t.Choose(2)
		}
		f := Fault{Kind: k}
		switch k {
		case FStatus:
			f.Param = []int{404, 500, 503, 204, 301}[t.Choose(5)]
		case FTruncate:
			f.Param = []int{500, 0, 999, 10}[t.Choose(4)]
		case FBodyStall:
			f.Param = []int{100, 1500, 10000}[t.Choose(3)]
		}
		return f
	}
	op.BaseFault = genF()
	op.BaseLat = time.Duration(1+t.Choose(3000)) * time.Millisecond
	for j := 0; j < sc.NDelta; j++ {
		op.DeltaFault = append(op.DeltaFault, genF())
		op.DeltaLat = append(op.DeltaLat, time.Duration(1+t.Choose(3000))*time.Millisecond)
	}
	op.GetPlan = t.Weighted(80, 12, 8)
	op.SetPlan = t.Weighted(80, 12, 8)
	if t.Bool(10) {
		op.CancelKind = 1 + t.Choose(4) // 1 before, 2 after CancelMs, 3 when the base body is closed, 4 when the first delta body is closed
		op.CancelMs = t.Choose(4000)
	}
}

func (w *c18World) hasURIs() ([]string, bool) {
	_, urls, ok := freshestValue(w.sc.FrShape, w.dURLs)
	return urls, ok
}

func (w *c18World) publish(base, delta bool, now time.Time) {
	mk := func(isDelta bool, num, ind int64) *CRLSpec {
		s := &CRLSpec{SignerKind: "issuer", SignerKey: w.ca.Key, IssuerName: w.ca.X.RawSubject, ThisUpdate: now, Number: num}
		valid := w.sc.BaseValidS
		if isDelta {
			valid = w.sc.DeltaValidS
			s.HasInd, s.Indicator = true, ind
		} else if w.sc.FrShape != FrAbsent {
			var us []string
			var ok bool
			s.Freshest, us, ok = freshestValue(w.sc.FrShape, w.dURLs)
			if ok {
				s.FreshURIs = len(us)
			}
		}
		if valid > 0 {
			s.NextUpdate = now.Truncate(time.Second).Add(time.Duration(valid) * time.Second)
		}
		s.Entries = []CRLEntrySpec{{Serial: big.NewInt(4242 + num), Reason: 1, RevTime: now.Add(-time.Hour)}}
		// well-formed lists without the CRL number extension (the fetcher has
		// no business with the number; the lists stay distinguishable by their
		// entries)
		switch {
		case w.sc.NoNumber == 1, w.sc.NoNumber == 2 && !isDelta && (num/2)%2 == 0, w.sc.NoNumber == 3 && isDelta:
			s.Number = -1
		}
		EncodeCRL(s)
		w.reg[s.Hash] = s
		return s
	}
	if base || w.cur.base == nil {
		w.num += 2
		w.baseNum = w.num
		w.cur.base = mk(false, w.num, 0)
	}
	if delta || w.cur.delta == nil {
		w.cur.deltas = nil
		for j := range w.dURLs {
			w.num++
			d := mk(true, w.num, w.baseNum)
			_ = j
			w.cur.deltas = append(w.cur.deltas, d)
		}
		w.cur.delta = w.cur.deltas[0]
	}
	w.hist = append(w.hist, w.cur)
}

// c18FetchObs is what one Fetch call did and returned.
type c18FetchObs struct {
	OpIdx    int
	TStart   time.Time
	TReturn  time.Time
	Returned bool
	Panicked bool
	PanicVal any
	Err      error
	Base     string
	Delta    string
	CacheOps []CacheOp
	XBase    *Exchange
	XDelta   []*Exchange
	Discard  bool
	NoCache  bool
	GetPlan  int
	SetPlan  int
	Cancel   int
	Schemes  []string       // schemes of every request made during this call
	TCancel  time.Time      // the instant this call\'s context was (to be) cancelled by a timer or before the call (zero = none)
	Caller   int            // 0 = sequential caller; 1.. = member of a concurrent group
	Group    int            // index of the concurrent operation (0 = none; operation 0 is always a plain fetch)
	Peers    []*c18FetchObs // every member of the group, this one included
	finish   func()
}

type c18Obs struct {
	Fetches   []*c18FetchObs
	Log       []string
	BubbleErr string
	Harness   string
	W         *c18World
	TEnd      time.Time
}

func execC18(sc *c18Scenario) (obs *c18Obs) {
	obs = &c18Obs{}
	defer func() {
		if r := recover(); r != nil {
			obs.BubbleErr = fmt.Sprint(r)
		}
	}()
	runBubble(func() { sc.exec(obs) })
	return obs
}

func (sc *c18Scenario) exec(obs *c18Obs) {
	ka := newKeyAllocator()
	nb, na := Epoch.Add(-365*24*time.Hour), Epoch.Add(20*365*24*time.Hour)
	ca, err := Issue(&CertSpec{CN: "c18-ca", Key: ka.get("ec256"), Serial: big.NewInt(1), IsCA: true, KeyUsage: x509.KeyUsageCertSign | x509.KeyUsageCRLSign, NotBefore: nb, NotAfter: na, MaxPathLen: -1}, nil)
	if err != nil {
		obs.Harness = err.Error()
		return
	}
	w := &c18World{sc: sc, ca: ca, reg: map[string]*CRLSpec{}, num: 10}
	obs.W = w
	w.baseURL = makeURL(sc.URLKind, "crl.c18.sim", "/ca.crl")
	for i := 0; i < sc.NDelta; i++ {
		// advertised order deliberately differs from lexicographic order
		w.dURLs = append(w.dURLs, makeURL(sc.DeltaKinds[i], fmt.Sprintf("delta%d.c18.sim", 2-i), "/delta.crl"))
	}
	w.publish(true, true, time.Now())
	nt := NewNet()
	schemesBy := make([][]string, 5) // per caller: each caller appends to its own element only
	cache := NewSimCache()
	cache.WrapMiss = sc.WrapMiss
	cache.CtxAware = sc.CtxAware
	cache.Declare(w.baseURL)
	client := &http.Client{Transport: roundTripFunc(func(req *http.Request) (*http.Response, error) {
		k := callerOf(req.Context())
		schemesBy[k] = append(schemesBy[k], req.URL.Scheme+"://"+req.URL.Host)
		return nt.RoundTrip(req)
	})}
	if sc.Timeout > 0 {
		client.Timeout = sc.Timeout + 500*time.Microsecond
	}
	newFetcher := func() *corecrl.HTTPFetcher {
		f, err := corecrl.NewHTTPFetcher(client)
		if err != nil {
			obs.Harness = err.Error()
			return nil
		}
		if !sc.NoCache {
			f.Cache = cache
		}
		f.DiscardCacheError = sc.Discard
		return f
	}
	fetcher := newFetcher()
	if fetcher == nil {
		return
	}
	logf := func(f string, a ...any) {
		obs.Log = append(obs.Log, fmt.Sprintf("t=%s ", rel(time.Now()))+fmt.Sprintf(f, a...))
	}
	var wmu sync.Mutex // publications in the middle of a concurrent group
	cancels := make([]context.CancelFunc, 5)
	nt.OnClose = func(x *Exchange) {
		if x.CancelOnClose {
			x.Rec.CancelledHere = true
			if c := cancels[x.Rec.CallerID]; c != nil {
				c()
			}
		}
	}
	// planFetch plans one Fetch call of the given caller (0 = the sequential
	// caller) and returns its record together with the function that performs it.
	planFetch := func(key, oi int, op c18Op, live bool) (*c18FetchObs, func()) {
		fo := &c18FetchObs{OpIdx: oi, Caller: key, Discard: sc.Discard, NoCache: sc.NoCache, GetPlan: op.GetPlan, SetPlan: op.SetPlan, Cancel: op.CancelKind}
		obs.Fetches = append(obs.Fetches, fo)
		// plan this call's exchanges; a sequential call is served the publication
		// current at its start, a member of a concurrent group the one current
		// when the request is answered
		pub := w.cur
		curPub := func() c18Pub {
			if !live {
				return pub
			}
			wmu.Lock()
			defer wmu.Unlock()
			return w.cur
		}
		fo.XBase = nt.Plan(key, &Exchange{URL: w.baseURL, Kind: "crl", Latency: op.BaseLat, Fault: op.BaseFault, ReadCap: crlReadCap,
			Serve: func(x *Exchange, req *http.Request, body []byte, now time.Time) ([]byte, string) {
				p := curPub()
				x.Rec.Served = &CRLServed{Spec: p.base}
				return p.base.DER, "application/pkix-crl"
			}})
		for j, du := range w.dURLs {
			fo.XDelta = append(fo.XDelta, nt.Plan(key, &Exchange{URL: du, Kind: "delta", SrcIdx: j, Latency: op.DeltaLat[j], Fault: op.DeltaFault[j], ReadCap: crlReadCap,
				Serve: func(x *Exchange, req *http.Request, body []byte, now time.Time) ([]byte, string) {
					d := curPub().deltas[x.SrcIdx]
					x.Rec.Served = &CRLServed{Spec: d}
					return d.DER, "application/pkix-crl"
				}}))
		}
		e := cache.ent(w.baseURL)
		if key <= 1 {
			e.gets, e.sets = nil, nil
			e.GetPlanBy, e.SetPlanBy = map[int][]int{}, map[int][]int{}
		}
		e.GetPlanBy[key], e.SetPlanBy[key] = []int{op.GetPlan}, []int{op.SetPlan}
		nOps := len(e.Ops)
		ctx, cancel := context.WithCancel(WithCaller(context.Background(), key))
		cancels[key] = cancel
		switch op.CancelKind {
		case 3:
			fo.XBase.CancelOnClose = true
		case 4:
			if len(fo.XDelta) > 0 {
				fo.XDelta[0].CancelOnClose = true
			}
		}
		fo.finish = func() {
			fo.CacheOps = nil
			for _, o := range e.Ops[nOps:] {
				if o.Caller == key {
					fo.CacheOps = append(fo.CacheOps, o)
				}
			}
			fo.Schemes = schemesBy[key]
		}
		run := func() {
			switch op.CancelKind {
			case 1:
				cancel()
				fo.TCancel = time.Now()
			case 2:
				off := cancelOffset
				if live {
					// relative to this member's start, which sits key x 50 us off the
					// millisecond: land on the +250 us lattice all the same
					off -= time.Duration(key) * 50 * time.Microsecond
				}
				time.AfterFunc(time.Duration(op.CancelMs)*time.Millisecond+off, cancel)
				fo.TCancel = time.Now().Add(time.Duration(op.CancelMs)*time.Millisecond + off)
			}
			schemesBy[key] = nil
			fo.TStart = time.Now()
			func() {
				defer func() {
					if r := recover(); r != nil {
						fo.Panicked, fo.PanicVal = true, r
					}
				}()
				b, err := fetcher.Fetch(ctx, w.baseURL)
				fo.Err = err
				if err == nil {
					fo.Base, fo.Delta = bundleHashes(b)
					if b == nil {
						fo.Base = "<nil bundle>"
					}
				}
			}()
			fo.TReturn, fo.Returned = time.Now(), true
			cancel()
			if !live {
				fo.finish()
			}
		}
		return fo, run
	}
	for oi, op := range sc.Ops {
		switch op.Kind {
		case OpAdvance:
			d := time.Duration(op.SmallS) * time.Second
			stored := cache.Peek(w.baseURL)
			target := time.Time{}
			if stored != nil {
				switch op.Adv {
				case AdvBaseMinus1, AdvBaseAt, AdvBasePlus1:
					if !stored.BaseCRL.NextUpdate.IsZero() {
						target = stored.BaseCRL.NextUpdate.Add(time.Duration(op.Adv-AdvBaseAt) * time.Second)
					}
				case AdvDeltaMinus1, AdvDeltaAt, AdvDeltaPlus1:
					if stored.DeltaCRL != nil && !stored.DeltaCRL.NextUpdate.IsZero() {
						target = stored.DeltaCRL.NextUpdate.Add(time.Duration(op.Adv-AdvDeltaAt) * time.Second)
					}
				}
			}
			if op.Adv == AdvLarge {
				d = 30 * 24 * time.Hour
			}
			if !target.IsZero() && target.After(time.Now()) {
				d = target.Sub(time.Now())
			}
			time.Sleep(d)
			logf("clock.advance kind=%s by=%s", advNames[op.Adv], d)
		case OpPublish:
			if op.PubRollback {
				if len(w.hist) >= 2 {
					w.cur = w.hist[len(w.hist)-2]
					w.hist = append(w.hist, w.cur)
					st0 := "rolled back"
					logf("publish: %s to the previous publication -> base#%d delta#%d..", st0, w.cur.base.Number, w.cur.delta.Number)
				} else {
					logf("publish: nothing to roll back to")
				}
				break
			}
			w.publish(op.PubBase, op.PubDelta, time.Now())
			logf("publish base=%v delta=%v -> base#%d delta#%d..", op.PubBase, op.PubDelta, w.cur.base.Number, w.cur.delta.Number)
		case OpRestart:
			fetcher = newFetcher()
			logf("restart (new HTTPFetcher, same cache)")
		case OpTearCache:
			stored := cache.Peek(w.baseURL)
			if stored == nil || len(w.hist) < 2 {
				logf("tear_cache: nothing to tear")
				break
			}
			old := w.hist[len(w.hist)-2]
			nb := &corecrl.Bundle{BaseCRL: stored.BaseCRL, DeltaCRL: stored.DeltaCRL}
			switch op.TearKind {
			case 0:
				nb.DeltaCRL = mustParseCRL(old.delta.DER)
			case 1:
				nb.DeltaCRL = nil
			case 2:
				nb.BaseCRL = mustParseCRL(old.base.DER)
			}
			cache.Seed(w.baseURL, nb)
			logf("tear_cache kind=%d", op.TearKind)
		case OpFetch:
			fo, run := planFetch(0, oi, op, false)
			run()
			// unused planned attempts must not be consumed by a later call
			nt.dropPending()
			logf("fetch -> err=%v base=%s delta=%s cacheops=%v", fo.Err != nil, w.specName(fo.Base), w.specName(fo.Delta), cacheOpsDesc(w, fo.CacheOps))
		case OpFetchConc:
			// overlapping Fetch calls on the one fetcher. Every member has its own
			// caller key (own slots, own cache plan, own context) and lives on its
			// own timer sub-lattice (key x 50 us), the publisher on +200 us, timed
			// cancellations on +250 us: no two events of the group can tie.
			var members []*c18FetchObs
			var runs []func()
			for k, m := range op.Conc {
				fo, run := planFetch(k+1, oi, m, true)
				fo.Group = oi
				members = append(members, fo)
				runs = append(runs, run)
			}
			for _, fo := range members {
				fo.Peers = members
			}
			var wg sync.WaitGroup
			for k := range runs {
				wg.Add(1)
				go func(k int) {
					defer wg.Done()
					time.Sleep(time.Duration(op.Conc[k].StartMs)*time.Millisecond + time.Duration(k+1)*50*time.Microsecond)
					runs[k]()
				}(k)
			}
			if op.PubAtMs >= 0 {
				wg.Add(1)
				go func() {
					defer wg.Done()
					time.Sleep(time.Duration(op.PubAtMs)*time.Millisecond + 200*time.Microsecond)
					wmu.Lock()
					w.publish(op.PubBase, op.PubDelta, time.Now())
					wmu.Unlock()
					logf("publish (during the concurrent fetches) base=%v delta=%v -> base#%d delta#%d..", op.PubBase, op.PubDelta, w.cur.base.Number, w.cur.delta.Number)
				}()
			}
			wg.Wait()
			nt.dropPending()
			for _, fo := range members {
				fo.finish()
				logf("fetch[caller %d, started %s] -> err=%v base=%s delta=%s cacheops=%v", fo.Caller, rel(fo.TStart), fo.Err != nil, w.specName(fo.Base), w.specName(fo.Delta), cacheOpsDesc(w, fo.CacheOps))
			}
			// back onto the whole-millisecond lattice
			if d := time.Since(Epoch) % time.Millisecond; d != 0 {
				time.Sleep(time.Millisecond - d)
			}
		}
	}
	obs.TEnd = time.Now()
}

type roundTripFunc func(*http.Request) (*http.Response, error)

func (f roundTripFunc) RoundTrip(r *http.Request) (*http.Response, error) { return f(r) }

func mustParseCRL(der []byte) *x509.RevocationList {
	r, err := x509.ParseRevocationList(der)
	if err != nil {
		panic("harness: own CRL unparsable: " + err.Error())
	}
	return r
}

func (w *c18World) specName(h string) string {
	if h == "" {
		return "-"
	}
	s := w.reg[h]
	if s == nil {
		return "?" + h
	}
	k := "base"
	if s.HasInd {
		k = "delta"
	}
	return fmt.Sprintf("%s#%d(next=%s)", k, s.Number, rel(s.NextUpdate))
}

func cacheOpsDesc(w *c18World, ops []CacheOp) string {
	var s []string
	for _, o := range ops {
		s = append(s, fmt.Sprintf("%s:%s[%s,%s]", o.Op, o.Outcome, w.specName(o.Base), w.specName(o.Delta)))
	}
	return strings.Join(s, " ")
}

// ---------- oracle ----------

func freshAt(s *CRLSpec, now time.Time) string { // "fresh" | "stale" | "boundary"
	if s.NextUpdate.IsZero() || now.After(s.NextUpdate) {
		return "stale"
	}
	if now.Equal(s.NextUpdate) {
		return "boundary"
	}
	return "fresh"
}

// crlDelivered: the exchange delivered a complete, parseable CRL.
func crlDelivered(x *Exchange) (*CRLSpec, bool) {
	ok, _ := deliveredBody(x)
	if !ok {
		return nil, false
	}
	cs, _ := x.Rec.Served.(*CRLServed)
	if cs == nil {
		return nil, false
	}
	return cs.Spec, true
}

func evalC18(sc *c18Scenario, obs *c18Obs, rc *ruleCtx) {
	w := obs.W
	urls, parseOK := w.hasURIs()
	shapeClear := parseOK && sc.FrShape != FrNonURIThenURI
	for _, fo := range obs.Fetches {
		tag := fmt.Sprintf("op %d fetch", fo.OpIdx)
		if fo.Group != 0 {
			tag = fmt.Sprintf("op %d concurrent fetch of caller %d", fo.OpIdx, fo.Caller)
			if fo.Caller == 1 {
				rc.st.Probes["c18_concurrent_groups"]++
			}
			for _, p := range fo.Peers {
				if p != fo && p.Returned && !p.TReturn.Before(fo.TStart) && !p.TStart.After(fo.TReturn) && fo.TReturn.After(fo.TStart) && p.TReturn.After(p.TStart) {
					rc.st.Probes["c18_concurrent_fetches_overlapped"]++
					break
				}
			}
			if !fo.Returned {
				rc.fail("C18.F1", "concurrent_fetch_never_returned", tag+": Fetch did not return")
				continue
			}
		}
		if fo.Panicked {
			rc.fail("C18.F1", "panic", fmt.Sprintf("%s: Fetch panicked: %v", tag, fo.PanicVal))
			continue
		}
		var get, set *CacheOp
		for i := range fo.CacheOps {
			o := &fo.CacheOps[i]
			if o.Op == "get" && get == nil {
				get = o
			}
			if o.Op == "set" {
				set = o
			}
		}
		// over plain HTTP only
		for _, s := range fo.Schemes {
			if !strings.HasPrefix(strings.ToLower(s), "http://") {
				rc.anteTrue("C18.F1")
				rc.fail("C18.F1", "non_http_request", fmt.Sprintf("%s: a request was sent to %s (only plain HTTP is allowed)", tag, s))
			}
		}
		// what this call downloaded: the base CRL, and the first delta location,
		// in order, that delivered a CRL
		downloads := func(c *c18FetchObs) (baseSpec *CRLSpec, baseOK bool, firstDelta *CRLSpec, firstIdx int) {
			firstIdx = -1
			if c.XBase.Rec.Begun {
				baseSpec, baseOK = crlDelivered(c.XBase)
			}
			for j := range urls {
				if j >= len(c.XDelta) {
					break
				}
				if !c.XDelta[j].Rec.Begun {
					continue
				}
				if s, ok := crlDelivered(c.XDelta[j]); ok {
					firstDelta, firstIdx = s, j
					break
				}
			}
			return
		}
		baseSpec, baseOK, firstDelta, firstIdx := downloads(fo)
		src := fo // the call whose downloads explain a returned bundle
		if fo.Err == nil {
			// ----- F1 / F2: where does the returned bundle come from? -----
			rc.anteTrue("C18.F1")
			fromCache := get != nil && get.Outcome == "hit" && get.Base == fo.Base && get.Delta == fo.Delta
			if !fromCache {
				// (a later Cache.Get of this call counts as well)
				for i := range fo.CacheOps {
					if o := &fo.CacheOps[i]; o.Op == "get" && o.Outcome == "hit" && o.Base == fo.Base && o.Delta == fo.Delta {
						fromCache = true
					}
				}
			}
			downloaded := baseOK && baseSpec.Hash == fo.Base
			cachedStale := false
			if fromCache {
				if bs, ds := w.reg[fo.Base], w.reg[fo.Delta]; bs != nil && (fo.Delta == "" || ds != nil) {
					cachedStale = freshAt(bs, fo.TReturn) == "stale" || (ds != nil && freshAt(ds, fo.TReturn) == "stale")
				}
			}
			if !downloaded && (!fromCache || cachedStale) {
				// "freshly downloaded": a fetcher may let overlapping calls for one
				// URL share a download. The bundle must then be, as a whole, what ONE
				// overlapping call downloaded (never a mixture of two calls' parts).
				for _, p := range fo.Peers {
					if p == fo || !p.Returned || p.TReturn.Before(fo.TStart) || p.TStart.After(fo.TReturn) {
						continue
					}
					if bs, ok, fd, fi := downloads(p); ok && bs.Hash == fo.Base {
						src, baseSpec, baseOK, firstDelta, firstIdx, downloaded = p, bs, ok, fd, fi, true
						rc.st.Probes["c18_served_from_overlapping_callers_download"]++
						break
					}
				}
			}
			if src != fo {
				// ... "and then written to the cache": by the call that downloaded it
				// (or by this call itself)
				if set == nil || set.Base != fo.Base || set.Delta != fo.Delta {
					set = nil
					for i := range src.CacheOps {
						if o := &src.CacheOps[i]; o.Op == "set" && !o.TEnd.After(fo.TReturn) {
							set = o
						}
					}
				}
			}
			switch {
			case fromCache && !downloaded:
				rc.anteTrue("C18.F2")
				rc.st.Probes["c18_served_from_cache"]++
				bs, ds := w.reg[fo.Base], w.reg[fo.Delta]
				if bs == nil || (fo.Delta != "" && ds == nil) {
					rc.fail("C18.F1", "unknown_crl_returned", tag+": returned a CRL the simulation never produced")
					break
				}
				fb := freshAt(bs, fo.TReturn)
				fd := "fresh"
				if ds != nil {
					fd = freshAt(ds, fo.TReturn)
				}
				if fb == "stale" || fd == "stale" {
					which := "base"
					if fb != "stale" {
						which = "delta"
					}
					why := "expired"
					if (which == "base" && bs.NextUpdate.IsZero()) || (which == "delta" && ds.NextUpdate.IsZero()) {
						why = "without_next_update"
					}
					rc.fail("C18.F2", "stale_cached_"+which+"_"+why, fmt.Sprintf("%s: returned the cached bundle [%s,%s] at %s although its %s CRL is %s", tag, w.specName(fo.Base), w.specName(fo.Delta), rel(fo.TReturn), which, why))
				}
				if fb == "boundary" || fd == "boundary" {
					rc.st.Vacuous["EITHER"]++
				}
			case downloaded:
				rc.st.Probes["c18_served_from_download"]++
				// delta: F3
				if shapeClear {
					rc.anteTrue("C18.F3")
					switch {
					case len(urls) == 0 && fo.Delta != "":
						rc.fail("C18.F3", "delta_without_advertised_location", fmt.Sprintf("%s: bundle has a delta CRL although the base CRL advertises no freshest-CRL URI (shape %d)", tag, sc.FrShape))
					case len(urls) > 0 && fo.Delta == "":
						rc.fail("C18.F4", "base_only_bundle", fmt.Sprintf("%s: base CRL advertises %d delta location(s) but a base-only bundle was returned", tag, len(urls)))
					case len(urls) > 0:
						if firstDelta == nil || firstDelta.Hash != fo.Delta {
							rc.fail("C18.F3", "delta_not_from_first_answering_location", fmt.Sprintf("%s: returned delta %s is not the answer of the first location that answered (index %d)", tag, w.specName(fo.Delta), firstIdx))
						}
						// "the first advertised location that answers": a location that
						// was never asked although, by the plan, it is healthy and every
						// location advertised before it is certainly down, is the one
						// whose answer had to be taken
						if src.Cancel == 0 {
							for j := range urls {
								if j >= len(src.XDelta) {
									break
								}
								x := src.XDelta[j]
								healthy := urlContactable(urls[j]) && (x.Fault.Kind == FNone || x.Fault.Kind == FRedirect)
								down := !urlContactable(urls[j]) || x.Fault.Kind == FConnErr || x.Fault.Kind == FStatus || x.Fault.Kind == FEmpty || x.Fault.Kind == FTruncate || x.Fault.Kind == FBodyErr || x.Fault.Kind == FGarbage || x.Fault.Kind == FLyingCL
								if healthy {
									if x.Rec.Begun && j != firstIdx && x.Rec.Outcome == "ctx_done" && (sc.Timeout == 0 || x.Rec.TReturn.Sub(x.Rec.TBegin) < sc.Timeout) {
										// nobody cancelled the caller's context and no client timeout
										// fired, yet the request to this location was aborted: the library
										// itself gave up on a location that was about to answer
										rc.fail("C18.F3", "earlier_healthy_location_aborted", fmt.Sprintf("%s: the delta was taken from location %d although location %d, advertised before it, was healthy; the library aborted its request after %s", tag, firstIdx, j, x.Rec.TReturn.Sub(x.Rec.TBegin)))
									}
									if !x.Rec.Begun && j != firstIdx {
										rc.fail("C18.F3", "earlier_healthy_location_never_asked", fmt.Sprintf("%s: the delta was taken from location %d although location %d, advertised before it and healthy, was never asked", tag, firstIdx, j))
									}
									break
								}
								if !down {
									break // a stalling location: what happens depends on the timeout
								}
							}
						}
						// (the statement fixes WHICH answer is taken, not the order in
						// which locations are contacted: that order is not judged)
					}
				}
				// written to the cache before returning
				if !fo.NoCache {
					if set == nil || set.Base != fo.Base || set.Delta != fo.Delta {
						rc.fail("C18.F1", "download_not_written_to_cache", fmt.Sprintf("%s: returned a freshly downloaded bundle without writing it to the cache (cache ops: %s)", tag, cacheOpsDesc(w, fo.CacheOps)))
					} else if set.Outcome == "error" && !fo.Discard {
						rc.anteTrue("C18.F5")
						rc.fail("C18.F5", "set_error_hidden", tag+": Cache.Set failed and DiscardCacheError is false, but Fetch succeeded")
					}
				}
			default:
				rc.fail("C18.F1", "bundle_of_unknown_origin", fmt.Sprintf("%s: returned bundle [%s,%s] is neither the bundle Cache.Get returned in this call nor one downloaded in this call (cache ops: %s; base download ok=%v)", tag, w.specName(fo.Base), w.specName(fo.Delta), cacheOpsDesc(w, fo.CacheOps), baseOK))
			}
			// F5: a Get error must surface unless discarded
			if get != nil && get.Outcome == "error" {
				rc.anteTrue("C18.F5")
				if !fo.Discard {
					rc.fail("C18.F5", "get_error_hidden", tag+": Cache.Get failed (not a miss) and DiscardCacheError is false, but Fetch succeeded")
				}
			}
			continue
		}
		// ----- Fetch returned an error -----
		if fo.Cancel != 0 {
			continue
		}
		// F5 (other direction): with DiscardCacheError cache failures are not errors;
		// F6: a miss is never an error. Only claimed when everything else worked.
		serverHealthy := baseOK && (!shapeClear || len(urls) == 0 || firstDelta != nil) && shapeClear
		if !urlContactable(w.baseURL) || sc.URLKind != UNormal {
			serverHealthy = false
		}
		// A fetcher may let overlapping calls share one download. A member of a
		// concurrent group may therefore fail because the download of an
		// overlapping, *uncancelled* peer failed (the simulated server treats
		// every request on its own), and need not have asked the server itself
		// when such a peer did. A peer's own cancellation excuses nothing.
		peerRequested, peerDownloadFailed := false, false
		for _, p := range fo.Peers {
			if p == fo || !p.Returned || p.TReturn.Before(fo.TStart) || p.TStart.After(fo.TReturn) || !p.XBase.Rec.Begun {
				continue
			}
			if p.Cancel != 0 {
				// a peer's own cancellation excuses nothing - unless its requests were
				// demonstrably not ended by it (all ran to an answer or to the client's timeout)
				aborted := false
				for _, x := range append([]*Exchange{p.XBase}, p.XDelta...) {
					if x.Rec.Begun && x.Rec.Outcome == "ctx_done" && (sc.Timeout == 0 || x.Rec.TReturn.Sub(x.Rec.TBegin) < sc.Timeout) {
						aborted = true
					}
				}
				if aborted {
					continue
				}
			}
			peerRequested = true
			if _, ok, fd, _ := downloads(p); !ok || !shapeClear || (len(urls) > 0 && fd == nil) {
				peerDownloadFailed = true
			}
		}
		if peerDownloadFailed {
			serverHealthy = false
			rc.st.Probes["c18_failure_explained_by_overlapping_callers_failed_download"]++
		}
		cacheFine := fo.NoCache || fo.Discard || ((get == nil || get.Outcome != "error") && (set == nil || set.Outcome != "error"))
		if serverHealthy && cacheFine {
			switch {
			case get != nil && get.Outcome == "miss":
				rc.anteTrue("C18.F6")
				rc.fail("C18.F6", "miss_is_error", fmt.Sprintf("%s: cache miss, healthy server, yet Fetch failed: %v", tag, fo.Err))
			case get != nil && get.Outcome == "error" && fo.Discard, set != nil && set.Outcome == "error" && fo.Discard:
				rc.anteTrue("C18.F5")
				rc.fail("C18.F5", "discarded_cache_error_surfaced", fmt.Sprintf("%s: DiscardCacheError is true, healthy server, yet Fetch failed: %v", tag, fo.Err))
			case get != nil && get.Outcome == "hit":
				// "either a bundle held in the cache ... still within next-update, or a
				// bundle freshly downloaded": an entry the cache handed out without
				// error, usable or not, is no reason to fail
				rc.anteTrue("C18.F2")
				rc.fail("C18.F2", "cached_entry_neither_served_nor_refreshed", fmt.Sprintf("%s: the cache returned an entry without error, the server is healthy, yet Fetch failed instead of serving or refreshing it: %v", tag, fo.Err))
			case fo.NoCache:
				rc.anteTrue("C18.F1")
				rc.fail("C18.F1", "healthy_download_failed", fmt.Sprintf("%s: no cache, healthy server, yet Fetch failed: %v", tag, fo.Err))
			}
		}
		if get != nil && get.Outcome == "miss" {
			rc.anteTrue("C18.F6")
			if !fo.XBase.Rec.Begun && !peerRequested && urlContactable(w.baseURL) && sc.URLKind == UNormal {
				// a miss (however the cache wraps the sentinel) must lead to a
				// download, not to an error before anything was requested
				rc.fail("C18.F6", "miss_is_error_without_download", fmt.Sprintf("%s: the cache reported a miss and Fetch failed without requesting the CRL at all: %v", tag, fo.Err))
			}
		}
		if get != nil && get.Outcome == "hit" {
			rc.anteTrue("C18.F2")
			rc.st.Probes["c18_fetch_failed_after_cache_hit"]++
			if !fo.XBase.Rec.Begun && !peerRequested && urlContactable(w.baseURL) && sc.URLKind == UNormal {
				// the entry was neither served (if still good) nor refreshed (if not)
				rc.fail("C18.F2", "cached_entry_neither_served_nor_refreshed", fmt.Sprintf("%s: the cache returned an entry without error, yet Fetch failed without serving it or requesting the CRL at all: %v", tag, fo.Err))
			}
		}
		if fo.NoCache && !fo.XBase.Rec.Begun && !peerRequested && urlContactable(w.baseURL) && sc.URLKind == UNormal {
			rc.anteTrue("C18.F1")
			rc.fail("C18.F1", "failed_without_requesting", fmt.Sprintf("%s: Fetch failed although neither it nor an uncancelled overlapping call requested the CRL: %v", tag, fo.Err))
		}
		if baseOK && shapeClear && len(urls) > 0 && firstDelta == nil {
			rc.anteTrue("C18.F4")
			rc.st.Probes["c18_delta_unobtainable_error"]++
		}
	}
}

func describeC18(sc *c18Scenario) any {
	var ops []string
	for i, op := range sc.Ops {
		s := fmt.Sprintf("%d:%s", i, c18OpNames[op.Kind])
		switch op.Kind {
		case OpFetch:
			var df []string
			for _, f := range op.DeltaFault {
				df = append(df, f.String())
			}
			s += fmt.Sprintf("(base_fault=%s delta_faults=%v get=%d set=%d cancel=%d@%dms)", op.BaseFault, df, op.GetPlan, op.SetPlan, op.CancelKind, op.CancelMs)
		case OpAdvance:
			s += "(" + advNames[op.Adv] + fmt.Sprintf(",%ds)", op.SmallS)
		case OpPublish:
			s += fmt.Sprintf("(base=%v,delta=%v,rollback=%v)", op.PubBase, op.PubDelta, op.PubRollback)
		case OpTearCache:
			s += fmt.Sprintf("(%d)", op.TearKind)
		case OpFetchConc:
			var ms []string
			for k, m := range op.Conc {
				var df []string
				for _, f := range m.DeltaFault {
					df = append(df, f.String())
				}
				ms = append(ms, fmt.Sprintf("caller%d@+%dms(base_fault=%s delta_faults=%v get=%d set=%d cancel=%d@%dms)", k+1, m.StartMs, m.BaseFault, df, m.GetPlan, m.SetPlan, m.CancelKind, m.CancelMs))
			}
			s += fmt.Sprintf("(%s; publish_at=%dms base=%v delta=%v)", strings.Join(ms, ", "), op.PubAtMs, op.PubBase, op.PubDelta)
		}
		ops = append(ops, s)
	}
	return map[string]any{"cache_wraps_miss": sc.WrapMiss, "cache_refuses_done_context": sc.CtxAware, "lists_without_crl_number": sc.NoNumber, "no_cache": sc.NoCache, "discard_cache_error": sc.Discard, "url_kind": urlKindNames[sc.URLKind], "freshest_shape": sc.FrShape, "delta_locations": sc.NDelta,
		"base_validity_s": sc.BaseValidS, "delta_validity_s": sc.DeltaValidS, "timeout_ms": sc.Timeout.Milliseconds(), "ops": ops}
}

func runC18(t *Tape, st *Stats, tier string) *RunResult {
	sc := genC18(t, false)
	rr := &RunResult{}
	obs := execC18(sc)
	st.Bubbles++
	if obs.Harness != "" {
		rr.Harness = obs.Harness
		return rr
	}
	if strings.HasPrefix(obs.BubbleErr, "harness:") {
		rr.Harness = obs.BubbleErr
		return rr
	}
	st.SimTimeMs += obs.TEnd.Sub(Epoch).Milliseconds()
	rc := &ruleCtx{props: map[string]bool{"C18": true}, st: st, ante: map[string]bool{}}
	if obs.BubbleErr != "" {
		rc.fail("C18.F1", "bubble", "bubble ended abnormally: "+firstLine(obs.BubbleErr))
	} else {
		evalC18(sc, obs, rc)
	}
	fired := 0
	var flat []c18Op
	for _, op := range sc.Ops {
		st.Probes["c18_op_"+c18OpNames[op.Kind]]++
		flat = append(flat, op)
		if op.Kind == OpFetchConc {
			fired++
			flat = append(flat, op.Conc...)
			if op.PubAtMs >= 0 {
				st.Probes["c18_publish_during_concurrent_fetches"]++
			}
		}
	}
	for _, op := range flat {
		if op.Kind == OpFetch {
			if op.BaseFault.Kind != 0 {
				st.Faults[faultNames[op.BaseFault.Kind]]++
				fired++
			}
			if op.GetPlan == 1 {
				st.Faults["cache_get_error"]++
				fired++
			}
			if op.SetPlan == 1 {
				st.Faults["cache_set_error"]++
				fired++
			}
			if op.SetPlan == 2 {
				st.Faults["cache_set_lost"]++
				fired++
			}
			if op.CancelKind != 0 {
				st.Faults["cancel"]++
			}
		}
		if op.Kind == OpAdvance || op.Kind == OpTearCache || op.Kind == OpRestart || op.Kind == OpPublish {
			fired++
		}
	}
	for _, fo := range obs.Fetches {
		for _, x := range fo.XDelta {
			if x.Rec.Begun && x.Fault.Kind != 0 {
				st.Faults["delta_"+faultNames[x.Fault.Kind]]++
			}
		}
	}
	rr.Trace = obs.Log
	rr.Scenario = describeC18(sc)
	rr.Nontrivial = fired > 0 && len(rc.ante) > 0
	rr.ShapeKey = hashHex([]byte(mustJSON(rr.Scenario) + strings.Join(stripTimes(obs.Log), "|")))
	rr.Violations = dedupeViolations(rc.out, "C18")
	rr.TraceHash = traceHash(rr.Trace)
	return rr
}

func stripTimes(l []string) []string {
	out := make([]string, len(l))
	for i, s := range l {
		if j := strings.Index(s, " "); j > 0 {
			s = s[j+1:]
		}
		out[i] = s
	}
	return out
}

func init() { registerProp(&PropDef{ID: "C18", Run: runC18}) }
