module verif/sim

go 1.26

require (
	github.com/notaryproject/notation-core-go v0.0.0
	github.com/notaryproject/tspclient-go v1.0.0
	golang.org/x/crypto v0.37.0
)

replace github.com/notaryproject/notation-core-go => /repo
