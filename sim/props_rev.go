package sim

import (
	"fmt"
	"sort"
	"strings"
)

func profC04() *RevProfile {
	p := defaultRevProfile("C04")
	p.OCSPCountW = []int{5, 50, 30, 15}
	p.CRLCountW = []int{60, 30, 7, 3}
	p.EntryW = []int{55, 10, 35}
	p.ConfigW = []int{10, 10, 45, 35}
	p.PSrcFault = 55
	p.STPct = 60
	p.CancelPct = 4
	p.SoakPct = 8 // state an earlier validation may have left behind
	p.HostileURL = 5
	p.RepsPct = 8 // overlapping validations of one chain that supply different signing times
	return p
}

func profC05() *RevProfile {
	p := defaultRevProfile("C05")
	p.OCSPCountW = []int{65, 25, 10, 0}
	p.CRLCountW = []int{3, 45, 32, 20}
	p.EntryW = []int{85, 15, 0}
	p.FetcherW = []int{40, 30, 30}
	p.ConfigW = []int{10, 10, 45, 35}
	p.PSrcFault = 45
	p.DeltaPct = 50
	p.SoakPct = 15
	p.StaleSigPct = 35
	p.CancelPct = 6 // also at exchange boundaries (between two distribution points, between base and delta)
	return p
}

func profC06() *RevProfile {
	p := defaultRevProfile("C06")
	p.LenW = []int{0, 40, 35, 25, 0}
	p.ConfigW = []int{5, 35, 10, 50}
	p.PSrcFault = 50
	p.HostileURL = 10
	p.CancelPct = 15
	p.BigBodyPct = 2
	p.CachePct = 40
	p.SoakPct = 20
	p.StaleSigPct = 35
	return p
}

func profC10() *RevProfile {
	p := defaultRevProfile("C10")
	p.LenW = []int{0, 70, 25, 5, 0}
	p.OCSPCountW = []int{70, 25, 5, 0}
	p.CRLCountW = []int{0, 75, 20, 5}
	p.EntryW = []int{85, 15, 0}
	p.FetcherW = []int{40, 20, 40}
	// mostly fault-free (the entry lists are the subject); with network faults
	// the OCSP phase ends Unknown and the same lists are interpreted on the
	// fallback path, and a cancellation may land between base and delta
	p.ConfigW = []int{70, 30, 0, 0}
	p.PSrcFault = 45
	p.CancelPct = 5
	p.SoakPct = 8
	p.CRLRich = true
	p.DeltaPct = 60
	p.STPct = 65
	return p
}

func profC11() *RevProfile {
	p := defaultRevProfile("C11")
	p.LenW = []int{0, 45, 35, 20, 0}
	p.OCSPCountW = []int{20, 40, 25, 15}
	p.CRLCountW = []int{20, 40, 25, 15}
	p.EntryW = []int{60, 15, 25}
	p.ConfigW = []int{15, 25, 25, 35}
	p.PSrcFault = 45
	p.TimestampPct = 30
	p.SoakPct = 15
	p.CancelPct = 8
	p.HostileURL = 6
	return p
}

func profC12() *RevProfile {
	p := defaultRevProfile("C12")
	p.LenW = []int{8, 30, 27, 20, 15}
	p.EntryW = []int{55, 20, 25}
	p.InvalidChain = 20
	p.TimestampPct = 30
	p.KeyW = []int{80, 6, 8, 3, 3}
	p.Schedules = 4
	p.LatMax = 400
	p.PSrcFault = 40
	p.CancelPct = 8 // completeness ("exactly one result per certificate") also under cancellation
	p.HostileURL = 5
	p.SoakPct = 6 // a caller that validates again after annotating the results it was handed (single schedule)
	return p
}

// runRev is the shared runner of the revocation-family properties.
func runRev(propID string, prof *RevProfile, rules []string, t *Tape, st *Stats, tier string) *RunResult {
	if tier == "thorough" {
		// deeper exploration: larger bodies more often, and for the schedule
		// profile every permutation of completion orders
		if prof.BigBodyPct > 0 {
			prof.BigBodyPct *= 3
		}
		if prof.Schedules > 1 {
			prof.Perms = -1
		}
		if prof.SoakPct > 0 {
			prof.SoakPct += 15
			prof.SoakLong = true
		}
	} else if prof.Schedules > 1 {
		prof.Perms = 2
	}
	sc := GenRevScenario(t, prof)
	return runRevScenario(propID, sc, rules, st, tier)
}

func runRevScenario(propID string, sc *RevScenario, rules []string, st *Stats, tier string) *RunResult {
	rr := &RunResult{}
	props := map[string]bool{}
	for _, r := range rules {
		props[r] = true
	}
	rc := &ruleCtx{props: props, st: st, ante: map[string]bool{}}
	seeds := append([]uint32{0}, sc.AltSeeds...)
	var firstCanon string
	for si, alt := range seeds {
		obs := ExecRev(sc, alt, -1, nil)
		st.Bubbles++
		if obs.HarnessErr != "" {
			rr.Harness = obs.HarnessErr
			return rr
		}
		st.SimTimeMs += obs.TEnd.Sub(Epoch).Milliseconds()
		fired := countRevStats(sc, obs, st)
		if sc.Sequential && si == 0 {
			st.Probes["soak_histories"]++
			for _, w := range sc.Worlds[1:] {
				if w.HasST != sc.Worlds[0].HasST || !w.ST.Equal(sc.Worlds[0].ST) {
					st.Probes["soak_step_with_another_signing_time"]++
					break
				}
			}
			st.Probes["soak_validations"] += int64(len(obs.Calls))
			for _, r := range sc.Restarts {
				if r {
					st.Probes["soak_restarts"]++
				}
			}
		}
		for _, co := range obs.Calls {
			sc.evalRevCall(rc, obs, co)
		}
		sc.evalRunLevel(rc, obs, propID)
		tr := revTrace(sc, obs)
		if si == 0 {
			rr.Trace = tr
			rr.Scenario = describeRev(sc)
			rr.Nontrivial = fired > 0 && len(rc.ante) > 0
			rr.ShapeKey = shapeKey(sc, obs)
		}
		// C06.R5, checked differentially: the same scenario with every fault on
		// one certificate's sources replaced by honest answers must leave the
		// results of all other certificates unchanged
		if propID == "C06" && si == 0 && len(sc.Worlds) == 1 && sc.Cancel != CancelOnXchg && len(obs.Calls) == 1 && obs.Calls[0].Err == nil && !obs.Calls[0].Panicked && len(sc.Worlds[0].Certs) > 2 && sc.Worlds[0].ChainDefect == ChainOK {
			j := sc.HealCert
			twin := ExecRev(sc, alt, -1, &execHooks{healCert: j})
			st.Bubbles++
			if twin.HarnessErr == "" && len(twin.Calls) == 1 && twin.Calls[0].Err == nil && !twin.Calls[0].Panicked && len(twin.Calls[0].Results) == len(obs.Calls[0].Results) {
				rc.anteTrue("C06.R5")
				for i := range obs.Calls[0].Results {
					if i == j {
						continue
					}
					a, b := fmtResult(obs.Calls[0].Results[i]), fmtResult(twin.Calls[0].Results[i])
					if a != b {
						rc.fail("C06.R5", "interference", fmt.Sprintf("result of certificate %d changed when only the faults on certificate %d's sources were removed:\n  with faults on cert %d:    %s\n  without faults on cert %d: %s", i, j, j, a, j, b))
					}
				}
			}
		}
		st.Interleav[completionOrder(obs)] = struct{}{}
		// schedule independence (C12 positional / C17.R1): canonical results
		// must be identical under every latency vector when the world is
		// time-invariant; only compared when no time-dependent behaviour is planned
		if len(seeds) > 1 && sc.timeInvariant() {
			canon := canonResults(obs)
			if si == 0 {
				firstCanon = canon
			} else if canon != firstCanon {
				rule := propID + ".SCHED"
				if propID == "C17" {
					rule = "C17.R1"
				}
				if propID == "C12" {
					rule = "C12.R2"
				}
				rc.anteTrue(rule)
				rc.fail(rule, "schedule_dependent_results", fmt.Sprintf("results differ between latency vector 0 and %d:\n  %s\n  %s", si, firstCanon, canon))
			}
		}
		if len(rc.out) > 0 && si > 0 && rr.Trace != nil {
			// keep the trace of the failing schedule
			rr.Trace = tr
		}
	}
	rr.Violations = dedupeViolations(rc.out, propID)
	rr.TraceHash = traceHash(rr.Trace)
	return rr
}

func dedupeViolations(vs []Violation, propID string) []Violation {
	seen := map[string]bool{}
	var out []Violation
	for _, v := range vs {
		if v.Prop != propID {
			continue
		}
		k := v.Rule + "|" + v.Sig
		if seen[k] {
			continue
		}
		seen[k] = true
		out = append(out, v)
	}
	return out
}

// timeInvariant: no planned behaviour depends on the instant of delivery.
func (sc *RevScenario) timeInvariant() bool {
	if sc.Cancel != CancelNone {
		return false
	}
	for _, w := range sc.Worlds {
		for _, cp := range w.Certs {
			for _, s := range cp.OCSP {
				if s.Content.NextKind != NuNormal && s.Content.NextKind != NuExpired && s.Content.NextKind != NuAbsent {
					return false
				}
				if s.Fault.Kind == FBodyStall || s.Fault.Kind == FStall {
					return false
				}
			}
			for _, s := range cp.CRL {
				nk := []int{s.Base.NextKind}
				if s.HasDelta {
					nk = append(nk, s.Delta.NextKind)
				}
				for _, k := range nk {
					if k != NuNormal && k != NuExpired && k != NuAbsent {
						return false
					}
				}
				if s.BaseFault.Kind == FBodyStall || s.BaseFault.Kind == FStall {
					return false
				}
				for _, f := range s.DeltaFault {
					if f.Kind == FBodyStall || f.Kind == FStall {
						return false
					}
				}
				if s.CacheSeed == 2 || s.CacheSeed == 4 {
					return false
				}
			}
		}
	}
	return true
}

func canonResults(obs *RevObs) string {
	var parts []string
	for _, co := range obs.Calls {
		var rs []string
		for _, r := range co.Results {
			rs = append(rs, fmtResult(r))
		}
		e := "nil"
		if co.Err != nil {
			e = fmt.Sprintf("%T", co.Err)
		}
		parts = append(parts, fmt.Sprintf("caller%d.%d err=%s panic=%v: %s", co.World.ID, co.Rep, e, co.Panicked, strings.Join(rs, " ; ")))
	}
	return strings.Join(parts, " || ")
}

// completionOrder is the measure of distinct interleavings: the sequence of
// exchange completions (slot keys ordered by completion instant).
func completionOrder(obs *RevObs) string {
	if obs.Net == nil {
		return ""
	}
	type e struct {
		t string
		k string
	}
	var es []e
	for _, x := range obs.Net.All() {
		if x.Rec.Returned {
			es = append(es, e{x.Rec.TReturn.Format("20060102150405.000"), fmt.Sprintf("%s:%d:%d", x.Kind, x.CertPos, x.SrcIdx)})
		}
	}
	sort.Slice(es, func(i, j int) bool {
		if es[i].t != es[j].t {
			return es[i].t < es[j].t
		}
		return es[i].k < es[j].k
	})
	var ks []string
	for _, x := range es {
		ks = append(ks, x.k)
	}
	return hashHex([]byte(strings.Join(ks, ">")))
}

// shapeKey identifies the scenario shape for distinct counting.
func shapeKey(sc *RevScenario, obs *RevObs) string {
	var parts []string
	parts = append(parts, fmt.Sprintf("f%d/c%d/x%d", sc.Fetcher, sc.Config, sc.Cancel))
	for _, co := range obs.Calls {
		w := co.World
		parts = append(parts, fmt.Sprintf("e%d/p%d/d%d/st%v", w.Entry, w.Purpose, w.ChainDefect, w.HasST))
		for _, cp := range w.Certs {
			for _, s := range cp.OCSP {
				parts = append(parts, fmt.Sprintf("o%d:%s:%d:%d", cp.Pos, s.Content.String(), s.Fault.Kind, s.URLKind))
			}
			for _, s := range cp.CRL {
				parts = append(parts, fmt.Sprintf("c%d:%s:%v:%d:%d:%d", cp.Pos, crlPlanDesc(&s.Base), s.HasDelta, s.BaseFault.Kind, s.URLKind, s.CacheSeed))
			}
		}
		for _, r := range co.Results {
			parts = append(parts, fmtResultShort(r))
		}
	}
	return hashHex([]byte(strings.Join(parts, "|")))
}

func fmtResultShort(r any) string { return fmt.Sprintf("%v", r != nil) }

// evalRunLevel applies run-level rules (leaks, deadlocks) for the properties
// that state them.
func (sc *RevScenario) evalRunLevel(rc *ruleCtx, obs *RevObs, propID string) {
}

func init() {
	reg := func(id string, prof func() *RevProfile, rules ...string) {
		registerProp(&PropDef{ID: id, Run: func(t *Tape, st *Stats, tier string) *RunResult {
			return runRev(id, prof(), rules, t, st, tier)
		}})
	}
	reg("C04", profC04, "C04")
	reg("C05", profC05, "C05")
	reg("C06", profC06, "C06")
	reg("C10", profC10, "C10")
	reg("C11", profC11, "C11")
	reg("C12", profC12, "C12")
}
