package sim

import (
	"fmt"
	"strings"

	"github.com/notaryproject/notation-core-go/revocation/result"
)

// RefEntry is one expected ServerResult.
type RefEntry struct {
	Server string
	Result result.Result
	Method result.RevocationMethod
}

// RefOutcome is one complete expected outcome for a certificate, transcribed
// from the statements of C04/C05/C10/C11/C12 (DESIGN Appendix A).
type RefOutcome struct {
	Result      result.Result
	Method      result.RevocationMethod
	Entries     []RefEntry
	FreeEntries bool // NonRevokable: entries are not constrained
	OCSPUsed    int  // responders consulted (prefix length, counting non-network ones)
	CRLUsed     int  // distribution points fetched (prefix length)
	Missing     bool // the outcome needed a source the library never contacted
}

func (o RefOutcome) String() string {
	var es []string
	for _, e := range o.Entries {
		es = append(es, fmt.Sprintf("%s:%s@%s", e.Method, e.Result, e.Server))
	}
	return fmt.Sprintf("%s via %s [%s]", o.Result, o.Method, strings.Join(es, " "))
}

type ocspPhase struct {
	res     result.Result
	entries []RefEntry
	used    int
	missing bool
}

// refOCSP enumerates the outcomes of the OCSP phase.
func refOCSP(srcs []*SrcView, i int, acc []RefEntry, missing bool, out *[]ocspPhase) {
	if len(*out) > 64 {
		return
	}
	if i == len(srcs) {
		*out = append(*out, ocspPhase{res: result.ResultUnknown, entries: append([]RefEntry(nil), acc...), used: i, missing: missing})
		return
	}
	s := srcs[i]
	for _, a := range s.Alts {
		switch a {
		case ClGood, ClGoodByInv:
			*out = append(*out, ocspPhase{res: result.ResultOK, entries: []RefEntry{{s.URL, result.ResultOK, result.RevocationMethodOCSP}}, used: i + 1, missing: missing})
		case ClRevoked:
			*out = append(*out, ocspPhase{res: result.ResultRevoked, entries: []RefEntry{{s.URL, result.ResultRevoked, result.RevocationMethodOCSP}}, used: i + 1, missing: missing})
		case ClUnknownSt:
			*out = append(*out, ocspPhase{res: result.ResultUnknown, entries: []RefEntry{{s.URL, result.ResultUnknown, result.RevocationMethodOCSP}}, used: i + 1, missing: missing})
		case ClNotContacted:
			refOCSP(srcs, i+1, append(acc, RefEntry{s.URL, result.ResultUnknown, result.RevocationMethodOCSP}), true, out)
		default: // NONE
			refOCSP(srcs, i+1, append(acc, RefEntry{s.URL, result.ResultUnknown, result.RevocationMethodOCSP}), missing, out)
		}
	}
}

type crlPhase struct {
	res     result.Result
	entries []RefEntry
	used    int
	missing bool
}

func refCRL(srcs []*SrcView, i int, acc []RefEntry, missing bool, out *[]crlPhase) {
	if len(*out) > 64 {
		return
	}
	if i == len(srcs) {
		*out = append(*out, crlPhase{res: result.ResultOK, entries: append([]RefEntry(nil), acc...), used: i, missing: missing})
		return
	}
	s := srcs[i]
	for _, a := range s.Alts {
		switch a {
		case ClGood:
			refCRL(srcs, i+1, append(acc, RefEntry{s.URL, result.ResultOK, result.RevocationMethodCRL}), missing, out)
		case ClRevoked:
			*out = append(*out, crlPhase{res: result.ResultRevoked, entries: []RefEntry{{s.URL, result.ResultRevoked, result.RevocationMethodCRL}}, used: i + 1, missing: missing})
		case ClNotContacted:
			*out = append(*out, crlPhase{res: result.ResultUnknown, entries: []RefEntry{{s.URL, result.ResultUnknown, result.RevocationMethodCRL}}, used: i + 1, missing: true})
		default:
			*out = append(*out, crlPhase{res: result.ResultUnknown, entries: []RefEntry{{s.URL, result.ResultUnknown, result.RevocationMethodCRL}}, used: i + 1, missing: missing})
		}
	}
}

// RefCert returns every outcome the statements allow for this certificate
// given what its sources delivered. vacuous is true when some delivery is of a
// shape the statements are silent about.
func RefCert(v *CertView) (outs []RefOutcome, vacuous bool) {
	if v.IsRoot {
		return []RefOutcome{{Result: result.ResultNonRevokable, Method: result.RevocationMethodUnknown, FreeEntries: true}}, false
	}
	for _, s := range v.OCSP {
		if s.Vacuous || s.Alts == nil {
			return nil, true
		}
	}
	crl := v.CRL
	if !v.UsesCR {
		crl = nil
	}
	for _, s := range crl {
		if s.Vacuous || s.Alts == nil {
			return nil, true
		}
	}
	if len(v.OCSP) == 0 && len(crl) == 0 {
		m := result.RevocationMethodUnknown
		return []RefOutcome{{Result: result.ResultNonRevokable, Method: m, FreeEntries: true}}, false
	}
	var cps []crlPhase
	if len(crl) > 0 {
		refCRL(crl, 0, nil, false, &cps)
	}
	if len(v.OCSP) == 0 {
		for _, c := range cps {
			outs = append(outs, RefOutcome{Result: c.res, Method: result.RevocationMethodCRL, Entries: c.entries, CRLUsed: c.used, Missing: c.missing})
		}
		return outs, len(outs) > 64
	}
	var ops []ocspPhase
	refOCSP(v.OCSP, 0, nil, false, &ops)
	for _, o := range ops {
		if o.res != result.ResultUnknown || len(crl) == 0 {
			outs = append(outs, RefOutcome{Result: o.res, Method: result.RevocationMethodOCSP, Entries: o.entries, OCSPUsed: o.used, Missing: o.missing})
			continue
		}
		for _, c := range cps {
			e := append(append([]RefEntry(nil), o.entries...), c.entries...)
			outs = append(outs, RefOutcome{Result: c.res, Method: result.RevocationMethodOCSPFallbackCRL, Entries: e, OCSPUsed: o.used, CRLUsed: c.used, Missing: o.missing || c.missing})
		}
	}
	return outs, len(outs) > 64
}

// matchOutcome compares the library's answer with one reference outcome.
func matchOutcome(v *CertView, o RefOutcome, checkMethod bool) bool {
	r := v.Res
	if r == nil || o.Missing {
		return false
	}
	if r.Result != o.Result {
		return false
	}
	if checkMethod && r.RevocationMethod != o.Method {
		return false
	}
	if o.FreeEntries {
		return true
	}
	if len(r.ServerResults) != len(o.Entries) {
		return false
	}
	for i, e := range o.Entries {
		sr := r.ServerResults[i]
		if sr == nil || sr.Server != e.Server || sr.Result != e.Result {
			return false
		}
		if checkMethod && sr.RevocationMethod != e.Method {
			return false
		}
	}
	return true
}

func fmtResult(r *result.CertRevocationResult) string {
	if r == nil {
		return "<nil>"
	}
	var es []string
	for _, e := range r.ServerResults {
		if e == nil {
			es = append(es, "<nil>")
			continue
		}
		es = append(es, fmt.Sprintf("%s:%s@%s", e.RevocationMethod, e.Result, e.Server))
	}
	return fmt.Sprintf("%s via %s [%s]", r.Result, r.RevocationMethod, strings.Join(es, " "))
}
