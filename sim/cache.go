package sim

import (
	"context"
	"errors"
	"fmt"
	"sync"
	"time"

	corecrl "github.com/notaryproject/notation-core-go/revocation/crl"
)

// SimCache is a fault-injecting crl.Cache. It is the only durable state in the
// simulated system: it survives "validator restart" operations.
type SimCache struct {
	mu       sync.Mutex // protects ents map structure only (entries are pre-created where known)
	ents     map[string]*cacheEnt
	pre      map[string]*cacheEnt // frozen copy, read-only during a run
	PanicOn  string               // url whose Get panics ("" = none)
	PanicV   any
	WrapMiss bool // misses are reported as a wrapped ErrCacheMiss
	PanicSet bool // ... the panic is raised by Set instead of Get
	// Latency is the (fake) duration of every cache operation: a durable
	// cache does I/O. Operations record their begin and end instants.
	Latency time.Duration
	// CtxAware: like a cache backed by real I/O, an operation whose context is
	// already done fails with that context's (wrapped) error
	CtxAware bool
}

type cacheEnt struct {
	mu     sync.Mutex
	bundle *corecrl.Bundle
	// fault plan: consumed in order per call
	GetPlan []int // per Get call: 0 normal, 1 error, 2 forced miss
	SetPlan []int // per Set call: 0 normal, 1 error, 2 lost (ack, not stored)
	// per-caller plans (used when present): concurrent callers of one URL
	GetPlanBy map[int][]int
	SetPlanBy map[int][]int
	gets      map[int]int // per caller: fault plans are consumed per caller so that
	sets      map[int]int // the outcome does not depend on which caller arrives first
	Ops       []CacheOp
}

// CacheOp is one recorded cache call.
type CacheOp struct {
	T       time.Time // begin
	TEnd    time.Time
	Done    bool
	Op      string // "get" | "set"
	Outcome string // "hit" | "miss" | "error" | "stored" | "lost"
	Base    string
	Delta   string
	Caller  int
}

var errCacheFault = errors.New("sim: cache I/O error")

func NewSimCache() *SimCache { return &SimCache{ents: map[string]*cacheEnt{}} }

// Freeze makes the current entry table read-only so that lookups of known
// URLs take no shared lock during the run (a shared lock would create
// happens-before edges between library goroutines and hide races from -race).
func (c *SimCache) Freeze() {
	c.pre = map[string]*cacheEnt{}
	for k, v := range c.ents {
		c.pre[k] = v
	}
}

// Declare makes sure an entry exists for the URL.
func (c *SimCache) Declare(url string) { c.ent(url) }

func (c *SimCache) ent(url string) *cacheEnt {
	if e := c.pre[url]; e != nil {
		return e
	}
	c.mu.Lock()
	defer c.mu.Unlock()
	e := c.ents[url]
	if e == nil {
		e = &cacheEnt{}
		c.ents[url] = e
	}
	return e
}

// Seed stores a bundle before the run.
func (c *SimCache) Seed(url string, b *corecrl.Bundle) { c.ent(url).bundle = b }

// Plan sets the fault plan of a URL.
func (c *SimCache) Plan(url string, gets, sets []int) {
	e := c.ent(url)
	e.GetPlan, e.SetPlan = gets, sets
}

func bundleHashes(b *corecrl.Bundle) (string, string) {
	if b == nil {
		return "", ""
	}
	var bh, dh string
	if b.BaseCRL != nil {
		bh = hashHex(b.BaseCRL.Raw)
	}
	if b.DeltaCRL != nil {
		dh = hashHex(b.DeltaCRL.Raw)
	}
	return bh, dh
}

// begin records the start of an operation and waits the cache latency.
func (c *SimCache) begin(ctx context.Context, e *cacheEnt, op CacheOp) int {
	e.mu.Lock()
	e.Ops = append(e.Ops, op)
	i := len(e.Ops) - 1
	e.mu.Unlock()
	if c.Latency > 0 {
		// a cancelled caller is not kept waiting: the operation then completes at once
		_ = sleepCtx(ctx, c.Latency)
	}
	return i
}

func (c *SimCache) Get(ctx context.Context, url string) (*corecrl.Bundle, error) {
	if c.PanicOn != "" && c.PanicOn == url && !c.PanicSet {
		panic(c.PanicV)
	}
	e := c.ent(url)
	idx := c.begin(ctx, e, CacheOp{T: time.Now(), Op: "get", Caller: callerOf(ctx)})
	e.mu.Lock()
	defer e.mu.Unlock()
	plan := 0
	caller := callerOf(ctx)
	if e.gets == nil {
		e.gets = map[int]int{}
	}
	gp := e.GetPlan
	if p, ok := e.GetPlanBy[caller]; ok {
		gp = p
	}
	if e.gets[caller] < len(gp) {
		plan = gp[e.gets[caller]]
	}
	e.gets[caller]++
	op := &e.Ops[idx]
	op.TEnd, op.Done = time.Now(), true
	if c.CtxAware && ctx.Err() != nil {
		op.Outcome = "error"
		return nil, fmt.Errorf("sim cache: get %q: %w", url, ctx.Err())
	}
	switch {
	case plan == 1:
		op.Outcome = "error"
		return nil, errCacheFault
	case plan == 2 || e.bundle == nil:
		op.Outcome = "miss"
		if c.WrapMiss {
			// a cache implementation may wrap the sentinel; errors.Is still says "miss"
			return nil, fmt.Errorf("sim cache: key %q: %w", url, corecrl.ErrCacheMiss)
		}
		return nil, corecrl.ErrCacheMiss
	}
	op.Outcome = "hit"
	op.Base, op.Delta = bundleHashes(e.bundle)
	return e.bundle, nil
}

func (c *SimCache) Set(ctx context.Context, url string, b *corecrl.Bundle) error {
	if c.PanicOn != "" && c.PanicOn == url && c.PanicSet {
		panic(c.PanicV)
	}
	e := c.ent(url)
	idx := c.begin(ctx, e, CacheOp{T: time.Now(), Op: "set", Caller: callerOf(ctx)})
	e.mu.Lock()
	defer e.mu.Unlock()
	plan := 0
	caller := callerOf(ctx)
	if e.sets == nil {
		e.sets = map[int]int{}
	}
	sp := e.SetPlan
	if p, ok := e.SetPlanBy[caller]; ok {
		sp = p
	}
	if e.sets[caller] < len(sp) {
		plan = sp[e.sets[caller]]
	}
	e.sets[caller]++
	op := &e.Ops[idx]
	op.TEnd, op.Done = time.Now(), true
	op.Base, op.Delta = bundleHashes(b)
	if c.CtxAware && ctx.Err() != nil {
		op.Outcome = "error"
		return fmt.Errorf("sim cache: set %q: %w", url, ctx.Err())
	}
	switch plan {
	case 1:
		op.Outcome = "error"
		return errCacheFault
	case 2:
		op.Outcome = "lost"
		return nil
	}
	op.Outcome = "stored"
	e.bundle = b
	return nil
}

// AllOps returns every recorded operation (sorted by URL for determinism).
func (c *SimCache) AllOps() []CacheOp {
	c.mu.Lock()
	urls := make([]string, 0, len(c.ents))
	for u := range c.ents {
		urls = append(urls, u)
	}
	c.mu.Unlock()
	sortStrings(urls)
	var out []CacheOp
	for _, u := range urls {
		out = append(out, c.OpsOf(u)...)
	}
	return out
}

// OpsOf returns the recorded operations of a URL.
func (c *SimCache) OpsOf(url string) []CacheOp {
	c.mu.Lock()
	e := c.ents[url]
	c.mu.Unlock()
	if e == nil {
		return nil
	}
	return e.Ops
}

// Peek returns what is stored for a URL.
func (c *SimCache) Peek(url string) *corecrl.Bundle {
	c.mu.Lock()
	e := c.ents[url]
	c.mu.Unlock()
	if e == nil {
		return nil
	}
	return e.bundle
}
