package sim

import (
	"crypto"
	"crypto/ecdsa"
	"crypto/rsa"
	"crypto/x509"
	"embed"
	"encoding/pem"
	"fmt"
	"sort"
	"strings"
)

//go:embed keys/*.pem
var keyFS embed.FS

// Key is one pre-generated private key from the committed pool.
type Key struct {
	Name string // e.g. "ec256-3"
	Kind string // e.g. "ec256"
	Priv crypto.Signer
}

var keyPool = map[string][]*Key{}
var keyByName = map[string]*Key{}

func init() {
	ents, err := keyFS.ReadDir("keys")
	if err != nil {
		panic(err)
	}
	names := make([]string, 0, len(ents))
	for _, e := range ents {
		names = append(names, e.Name())
	}
	sort.Strings(names)
	for _, n := range names {
		b, err := keyFS.ReadFile("keys/" + n)
		if err != nil {
			panic(err)
		}
		blk, _ := pem.Decode(b)
		k, err := x509.ParsePKCS8PrivateKey(blk.Bytes)
		if err != nil {
			panic(fmt.Sprintf("%s: %v", n, err))
		}
		name := strings.TrimSuffix(n, ".pem")
		kind := name[:strings.Index(name, "-")]
		var s crypto.Signer
		switch kk := k.(type) {
		case *rsa.PrivateKey:
			s = kk
		case *ecdsa.PrivateKey:
			s = kk
		default:
			panic("key type")
		}
		key := &Key{Name: name, Kind: kind, Priv: s}
		keyPool[kind] = append(keyPool[kind], key)
		keyByName[name] = key
	}
}

// keyAllocator hands out distinct keys of the requested kinds within one world.
type keyAllocator struct{ used map[string]int }

func newKeyAllocator() *keyAllocator { return &keyAllocator{used: map[string]int{}} }

// get returns the next unused key of that kind (wraps around if the pool is
// exhausted; callers that need distinct keys use few enough).
func (a *keyAllocator) get(kind string) *Key {
	p := keyPool[kind]
	if len(p) == 0 {
		panic("no keys of kind " + kind)
	}
	i := a.used[kind]
	if i >= len(p) {
		// never hand out the same key twice within one world: two parties
		// sharing a key would make a "forged" answer authentic. Fall back to
		// the large P-256 pool.
		if kind == "ec256" {
			panic("ec256 key pool exhausted")
		}
		return a.get("ec256")
	}
	a.used[kind] = i + 1
	return p[i]
}

func isRSA(k *Key) bool { return strings.HasPrefix(k.Kind, "rsa") }
