package sim

import (
	"fmt"
	"sort"
	"strings"
	"time"
)

// ---------- C09: network-facing robustness ----------

func profC09() *RevProfile {
	p := defaultRevProfile("C09")
	p.LenW = []int{5, 40, 30, 15, 10}
	p.ConfigW = []int{2, 28, 25, 45}
	p.PSrcFault = 55
	p.HostileURL = 30
	p.CancelPct = 25
	p.BigBodyPct = 6
	p.EntryW = []int{50, 20, 30}
	p.FetcherW = []int{55, 40, 5}
	p.Hostile = true
	p.InvalidChain = 6 // chains that must be refused, not crash the validator
	p.TimestampPct = 25
	// a transport, fetcher or cache that panics has "answered": the call must
	// still terminate (the panic itself resurfacing on the caller is C17's
	// subject and is not judged here)
	p.PanicPct = 5
	return p
}

// lastInstant is the latest instant at which anything the call waited for
// happened (exchange returns, body ends, fetch ends).
func lastInstant(obs *RevObs, co *CallObs) time.Time {
	t := co.TStart
	ck := co.World.callerKeyOf(co.Rep)
	// exchanges of the other callers of the same chain count too: a library
	// that lets overlapping identical checks share one exchange is waiting
	// for something
	same := map[int]bool{ck: true}
	for r := 0; r < co.World.Reps; r++ {
		same[co.World.callerKeyOf(r)] = true
	}
	for _, x := range obs.Net.All() {
		if !same[x.Rec.CallerID] || !x.Rec.Begun {
			continue
		}
		if co.World.Entry != EValidateContext && !strings.HasSuffix(hostOf(x.URL), fmt.Sprintf(".w%d.sim", co.World.ID)) && hostOf(x.URL) != "redirect.sim" {
			continue
		}
		for _, c := range []time.Time{x.Rec.TBegin, x.Rec.TReturn, x.Rec.TBodyEnd, x.Rec.TClosed} {
			if c.After(t) {
				t = c
			}
		}
	}
	for _, f := range obs.Fetches {
		if f.Caller == ck && f.TEnd.After(t) {
			t = f.TEnd
		}
	}
	// a request beyond the planned attempts (a retry) is answered at once
	for _, u := range obs.Net.Unplanned {
		if same[u.Caller] && u.T.After(t) {
			t = u.T
		}
	}
	return t
}

// idleBudget is how long a call may sit with nothing in flight (no exchange, no
// fetch, no cache operation of its own or of an overlapping caller of the same
// chain) before it counts as blocked "although the transport has answered". A
// short, bounded pause between two attempts is not a hang; waiting for an
// instant a server named is.
const idleBudget = 30 * time.Second

// idleGap returns the longest stretch of the call during which nothing it
// could be waiting for was in flight.
func idleGap(obs *RevObs, co *CallObs) (time.Duration, time.Time) {
	type iv struct{ a, b time.Time }
	var ivs []iv
	same := map[int]bool{co.World.callerKeyOf(co.Rep): true}
	for r := 0; r < co.World.Reps; r++ {
		same[co.World.callerKeyOf(r)] = true
	}
	for _, x := range obs.Net.All() {
		if !x.Rec.Begun {
			continue
		}
		if !same[x.Rec.CallerID] {
			continue
		}
		if co.World.Entry != EValidateContext && !strings.HasSuffix(hostOf(x.URL), fmt.Sprintf(".w%d.sim", co.World.ID)) && hostOf(x.URL) != "redirect.sim" {
			continue
		}
		e := exchangeEnd(x, obs)
		if !x.Rec.Returned || (x.Rec.Outcome == "response" && !x.Rec.BodyEnd && x.Rec.TClosed.IsZero()) {
			e = obs.TEnd
		}
		ivs = append(ivs, iv{x.Rec.TBegin, e})
	}
	for _, f := range obs.Fetches {
		if same[f.Caller] {
			e := f.TEnd
			if !f.Done {
				e = obs.TEnd
			}
			ivs = append(ivs, iv{f.TBegin, e})
		}
	}
	for _, u := range obs.Net.Unplanned {
		if same[u.Caller] {
			ivs = append(ivs, iv{u.T, u.T})
		}
	}
	sort.Slice(ivs, func(i, j int) bool { return ivs[i].a.Before(ivs[j].a) })
	cur := co.TStart
	var best time.Duration
	var at time.Time
	for _, v := range ivs {
		if v.a.After(co.TReturn) {
			break
		}
		if v.a.After(cur) {
			if g := v.a.Sub(cur); g > best {
				best, at = g, cur
			}
		}
		if v.b.After(cur) {
			cur = v.b
		}
	}
	return best, at
}

// evalLiveness applies the hang / leak / bounded-read rules. prefix is the
// property id whose rule numbers are used.
func (sc *RevScenario) evalLiveness(rc *ruleCtx, obs *RevObs, leakRule, readRule string) {
	rc.anteTrue(leakRule)
	if obs.BubbleErr != "" {
		kind := "deadlock"
		if strings.Contains(obs.BubbleErr, "blocked goroutines remain") {
			kind = "leaked_goroutines"
		}
		rc.fail(leakRule, kind, "bubble ended abnormally: "+firstLine(obs.BubbleErr))
	}
	for _, co := range obs.Calls {
		if !co.Returned {
			if obs.BubbleErr == "" {
				rc.fail(leakRule, "call_never_returned", fmt.Sprintf("caller %d.%d: the call never returned", co.World.ID, co.Rep))
			}
			continue
		}
		if tc, ok := sc.cancelInstant(obs, co); ok && co.World.Entry == EValidateContext {
			rc.st.Probes["cancel_landed_during_call"]++
			if co.TReturn.After(tc) {
				rc.fail(leakRule, "blocked_after_cancel", fmt.Sprintf("caller %d.%d: the context was cancelled at %s but the call only returned at %s", co.World.ID, co.Rep, rel(tc), rel(co.TReturn)))
			}
		}
		if gap, at := idleGap(obs, co); gap > idleBudget {
			rc.fail(leakRule, "idle_with_nothing_in_flight", fmt.Sprintf("caller %d.%d: from %s on the call sat idle for %s although every server had answered and nothing was in flight", co.World.ID, co.Rep, rel(at), gap))
		}
		li := lastInstant(obs, co)
		if co.TReturn.After(li) {
			rc.fail(leakRule, "blocked_after_last_answer", fmt.Sprintf("caller %d.%d: returned at %s although the last answer / cancellation it could wait for was at %s", co.World.ID, co.Rep, rel(co.TReturn), rel(li)))
		}
	}
	for _, x := range obs.Net.All() {
		if x.Rec.Hops > 0 {
			rc.st.Probes["redirect_loop_entered"]++
		}
		if x.Rec.Hops >= redirectLoopCap/2 {
			rc.fail(leakRule, "endless_redirect_chain_followed/"+x.Kind, fmt.Sprintf("%s: the library followed %d consecutive redirects of a server that redirects for ever (only the simulated server's giving up ended it)", x.Key, x.Rec.Hops))
		}
	}
	if len(obs.InFlight) > 0 {
		rc.fail(leakRule, "exchange_in_flight_at_return", "exchanges still in flight when the call returned: "+strings.Join(obs.InFlight, ","))
	}
	if len(obs.LateEvents) > 0 {
		rc.fail(leakRule, "exchange_after_return", "exchanges progressed after the call returned: "+strings.Join(obs.LateEvents, ","))
	}
	if readRule != "" {
		rc.anteTrue(readRule)
		for _, x := range obs.Net.All() {
			if x.Rec.Unbounded || (x.ReadCap > 0 && x.Rec.BodyRead > x.ReadCap+unboundedSlack) {
				rc.fail(readRule, "unbounded_read/"+x.Kind, fmt.Sprintf("%s: the library consumed %d bytes of a %s body (cap %d)", x.Key, x.Rec.BodyRead, x.Kind, x.ReadCap))
			}
		}
	}
}

// cancelInstant returns the instant at which the caller's context was
// cancelled, if that happened while the call was running.
func (sc *RevScenario) cancelInstant(obs *RevObs, co *CallObs) (time.Time, bool) {
	var tc time.Time
	if !sc.cancelApplies(co.World, co.Rep) {
		return tc, false
	}
	switch sc.Cancel {
	case CancelBefore:
		tc = co.TStart
	case CancelAt, CancelDeadline:
		tc = obs.T0.Add(sc.CancelAfter + cancelOffset)
	case CancelOnXchg:
		for _, x := range obs.Net.All() {
			if x.Rec.CancelledHere && x.Rec.CallerID == co.World.callerKeyOf(co.Rep) && (tc.IsZero() || x.Rec.TClosed.Before(tc)) {
				tc = x.Rec.TClosed
			}
		}
		if tc.IsZero() {
			return tc, false
		}
	default:
		return tc, false
	}
	if tc.Before(co.TStart) {
		tc = co.TStart
	}
	if co.Returned && tc.After(co.TReturn) {
		return tc, false
	}
	return tc, true
}

func firstLine(s string) string {
	if i := strings.Index(s, "\n"); i >= 0 {
		return s[:i]
	}
	return s
}

func runC09(t *Tape, st *Stats, tier string) *RunResult {
	// the network-facing surfaces: revocation checking (most runs), timestamped
	// signing against a hostile authority, and the CRL fetcher on its own
	switch t.Weighted(65, 20, 15) {
	case 1:
		return runC09Timestamp(t, st)
	case 2:
		return runC09Fetcher(t, st)
	}
	prof := profC09()
	if tier == "thorough" {
		prof.BigBodyPct *= 3
	}
	if t.Bool(20) {
		// several callers share the validator, client, fetcher and cache, some
		// arriving later, the cancellation possibly meant for one of them only:
		// whatever the others do or suffer, every call terminates
		prof.MaxCallers = 6
		prof.StaggerPct = 50
		st.Probes["c09_several_callers"]++
	}
	sc := GenRevScenario(t, prof)
	rr := &RunResult{}
	rc := &ruleCtx{props: map[string]bool{"C09": true}, st: st, ante: map[string]bool{}}
	obs := ExecRev(sc, 0, -1, nil)
	st.Bubbles++
	if obs.HarnessErr != "" {
		rr.Harness = obs.HarnessErr
		return rr
	}
	st.SimTimeMs += obs.TEnd.Sub(Epoch).Milliseconds()
	fired := countRevStats(sc, obs, st)
	rc.anteTrue("C09.R1")
	for _, co := range obs.Calls {
		if co.Panicked && !(sc.PanicAt != "" && isInjectedPanic(co.PanicVal, obs.PanicToken)) {
			rc.fail("C09.R1", panicSig(co.PanicVal), fmt.Sprintf("caller %d.%d via %s: panic reached the caller: %v", co.World.ID, co.Rep, entryNames[co.World.Entry], co.PanicVal))
		}
	}
	if sc.PanicAt != "" {
		st.Probes["c09_panicking_component_"+sc.PanicAt]++
	}
	sc.evalLiveness(rc, obs, "C09.R3", "C09.R4")
	rr.Trace = revTrace(sc, obs)
	rr.Scenario = describeRev(sc)
	rr.Nontrivial = fired > 0
	rr.ShapeKey = shapeKey(sc, obs)
	st.Interleav[completionOrder(obs)] = struct{}{}
	rr.Violations = dedupeViolations(rc.out, "C09")
	rr.TraceHash = traceHash(rr.Trace)
	return rr
}

// runC09Timestamp applies the C09 rules to a timestamped Sign against a
// hostile authority (and hostile revocation sources of the TSA chain).
func runC09Timestamp(t *Tape, st *Stats) *RunResult {
	sc := genC15(t)
	rr := &RunResult{}
	obs := execC15(sc)
	st.Bubbles++
	if obs.Harness != "" {
		rr.Harness = obs.Harness
		return rr
	}
	rc := &ruleCtx{props: map[string]bool{"C09": true}, st: st, ante: map[string]bool{}}
	desc := fmt.Sprintf("timestamped Sign: tsa=%s fault=%s chain_defect=%s", tsaBehaviourNames[sc.Behaviour], sc.Fault, tsaDefectNames[sc.Rev.Worlds[0].TSADefect])
	rc.anteTrue("C09.R1")
	st.Probes["c09_surface_timestamped_sign"]++
	if obs.Panicked && !(sc.RevMode == RevStub && sc.StubPanic != 0 && obs.Stub != nil && obs.Stub.calls > 0) {
		rc.fail("C09.R1", "sign/"+panicSig(obs.PanicVal), fmt.Sprintf("%s: panic reached the caller: %v", desc, obs.PanicVal))
	}
	rc.anteTrue("C09.R3")
	if obs.BubbleErr != "" {
		rc.fail("C09.R3", "sign/bubble", desc+": bubble ended abnormally: "+firstLine(obs.BubbleErr))
	} else {
		tc := time.Time{}
		switch sc.Cancel {
		case 1:
			tc = obs.TStart
		case 2:
			tc = obs.TStart.Add(time.Duration(sc.CancelMs)*time.Millisecond + cancelOffset)
		}
		// (a caller-supplied signer that takes its time and does not look at
		// the context is not the library blocking)
		if !tc.IsZero() && !tc.After(obs.TReturn) && obs.X.Rec.Begun && obs.TReturn.After(tc) && sc.Scheme == 0 && !sc.NoTimestamp && sc.KeySpecLat == 0 {
			rc.fail("C09.R3", "sign/blocked_after_cancel", fmt.Sprintf("%s: the context was cancelled at %s but Sign only returned at %s", desc, rel(tc), rel(obs.TReturn)))
		}
	}
	rc.anteTrue("C09.R4")
	for _, x := range obs.RevObs.Net.All() {
		if x.Rec.Unbounded || (x.ReadCap > 0 && x.Rec.BodyRead > x.ReadCap+unboundedSlack) {
			rc.fail("C09.R4", "unbounded_read/"+x.Kind, fmt.Sprintf("%s: the library consumed %d bytes of a %s body (cap %d)", desc, x.Rec.BodyRead, x.Kind, x.ReadCap))
		}
	}
	if sc.Fault.Kind != 0 && obs.X.Rec.Begun {
		st.Faults["tsa_"+faultNames[sc.Fault.Kind]]++
	}
	st.Behav["tsa_"+tsaBehaviourNames[sc.Behaviour]]++
	e := "nil"
	if obs.Err != nil {
		e = fmt.Sprintf("%T", obs.Err)
	}
	rr.Trace = append(revTrace(sc.Rev, obs.RevObs), fmt.Sprintf("t=%s sign.return err=%s bytes=%v panic=%v", rel(obs.TReturn), e, obs.Bytes != nil, obs.Panicked))
	rr.Scenario = describeC15(sc)
	rr.Nontrivial = sc.Behaviour > TBGrantedWithMods || sc.Fault.Kind != 0
	rr.ShapeKey = hashHex([]byte(fmt.Sprintf("ts/%d/%s/%d/%d/%d/%s", sc.Format, sc.KeyKind, sc.Behaviour, sc.Fault.Kind, sc.Rev.Worlds[0].TSADefect, e)))
	rr.Violations = dedupeViolations(rc.out, "C09")
	rr.TraceHash = traceHash(rr.Trace)
	return rr
}

// runC09Fetcher applies the C09 rules to histories on the CRL fetcher.
func runC09Fetcher(t *Tape, st *Stats) *RunResult {
	sc := genC18(t, true)
	rr := &RunResult{}
	obs := execC18(sc)
	st.Bubbles++
	if obs.Harness != "" || strings.HasPrefix(obs.BubbleErr, "harness:") {
		rr.Harness = obs.Harness + obs.BubbleErr
		return rr
	}
	rc := &ruleCtx{props: map[string]bool{"C09": true}, st: st, ante: map[string]bool{}}
	st.Probes["c09_surface_fetcher"]++
	rc.anteTrue("C09.R1")
	rc.anteTrue("C09.R3")
	rc.anteTrue("C09.R4")
	if obs.BubbleErr != "" {
		rc.fail("C09.R3", "fetch/bubble", "HTTPFetcher.Fetch: bubble ended abnormally: "+firstLine(obs.BubbleErr))
	}
	fired := 0
	for _, fo := range obs.Fetches {
		if fo.Panicked {
			rc.fail("C09.R1", "fetch/"+panicSig(fo.PanicVal), fmt.Sprintf("HTTPFetcher.Fetch (op %d): panic reached the caller: %v", fo.OpIdx, fo.PanicVal))
		}
		if !fo.TCancel.IsZero() && fo.Returned && fo.TReturn.After(fo.TCancel) {
			// under fake time a Fetch whose every wait observes its context
			// returns at the very instant that context ends
			rc.fail("C09.R3", "fetch/blocked_after_cancel", fmt.Sprintf("HTTPFetcher.Fetch (op %d, caller %d): the context was cancelled at %s but Fetch only returned at %s", fo.OpIdx, fo.Caller, rel(fo.TCancel), rel(fo.TReturn)))
		}
		for _, x := range append([]*Exchange{fo.XBase}, fo.XDelta...) {
			if x.Rec.Begun && x.Fault.Kind != 0 {
				st.Faults["fetch_"+faultNames[x.Fault.Kind]]++
				fired++
			}
			if x.Rec.Unbounded || (x.ReadCap > 0 && x.Rec.BodyRead > x.ReadCap+unboundedSlack) {
				rc.fail("C09.R4", "unbounded_read/"+x.Kind, fmt.Sprintf("HTTPFetcher.Fetch (op %d): consumed %d bytes of a %s body (cap %d)", fo.OpIdx, x.Rec.BodyRead, x.Kind, x.ReadCap))
			}
			if x.Rec.CancelledHere && fo.TReturn.After(x.Rec.TClosed) {
				rc.fail("C09.R3", "fetch/blocked_after_cancel", fmt.Sprintf("HTTPFetcher.Fetch (op %d): the context was cancelled at %s but Fetch only returned at %s", fo.OpIdx, rel(x.Rec.TClosed), rel(fo.TReturn)))
			}
		}
	}
	rr.Trace = obs.Log
	rr.Scenario = describeC18(sc)
	rr.Nontrivial = fired > 0 || sc.FrShape >= FrMalformed
	rr.ShapeKey = hashHex([]byte("f/" + mustJSON(rr.Scenario)))
	rr.Violations = dedupeViolations(rc.out, "C09")
	rr.TraceHash = traceHash(rr.Trace)
	return rr
}

func panicSig(v any) string {
	s := fmt.Sprint(v)
	if len(s) > 120 {
		s = s[:120]
	}
	return "panic:" + s
}

// ---------- C17: schedules, races, leaks, panic routing ----------

func profC17() *RevProfile {
	p := defaultRevProfile("C17")
	p.LenW = []int{0, 30, 30, 25, 15}
	p.OCSPCountW = []int{15, 45, 25, 15}
	p.CRLCountW = []int{25, 40, 25, 10}
	p.EntryW = []int{70, 10, 20}
	p.FetcherW = []int{35, 50, 15}
	p.ConfigW = []int{20, 30, 20, 30}
	p.PSrcFault = 40
	p.DeltaPct = 45
	p.CancelPct = 15
	p.PanicPct = 15
	p.Schedules = 4
	p.LatMax = 400
	p.MaxCallers = 8
	p.StaggerPct = 35
	p.SharedClientPct = 30
	// schedules, not key types, are the subject: mostly the fast P-256 (signing
	// dominates the cost of a bubble), the other kinds stay in the mix
	p.KeyW = []int{88, 4, 4, 2, 2}
	p.TimeInvariant = true
	return p
}

func runC17(t *Tape, st *Stats, tier string) *RunResult {
	prof := profC17()
	prof.Perms = 3
	if tier == "thorough" {
		prof.Schedules = 9
		prof.Perms = -1 // every permutation of the up to four concurrent checks
		prof.MaxCallers = 32
	}
	sc := GenRevScenario(t, prof)
	if raceEnabled && len(sc.AltSeeds) > 1 {
		// the race detector works on happens-before, not on the schedule that
		// happened: under -race few schedules per scenario and many scenarios
		// find more than the other way round. The tape is drawn identically in
		// both builds; the race build merely uses fewer of the drawn vectors.
		sc.AltSeeds = sc.AltSeeds[:1]
	}
	rr := &RunResult{}
	rc := &ruleCtx{props: map[string]bool{"C17": true, "C11": true}, st: st, ante: map[string]bool{}, retag: map[string]string{"C11": "C17.R5"}}
	seeds := append([]uint32{0}, sc.AltSeeds...)
	var firstCanon string
	var obs0 *RevObs
	fired := 0
	for si, alt := range seeds {
		obs := ExecRev(sc, alt, -1, nil)
		st.Bubbles++
		if obs.HarnessErr != "" {
			rr.Harness = obs.HarnessErr
			return rr
		}
		st.SimTimeMs += obs.TEnd.Sub(Epoch).Milliseconds()
		if si == 0 {
			obs0 = obs
			fired = countRevStats(sc, obs, st)
			rr.Trace = revTrace(sc, obs)
			rr.Scenario = describeRev(sc)
			rr.ShapeKey = shapeKey(sc, obs)
		}
		st.Interleav[completionOrder(obs)] = struct{}{}
		// R3: nothing left behind
		sc.evalLiveness(rc, obs, "C17.R3", "")
		// R4: panic routing
		if sc.PanicAt == "transport" {
			kinds := map[int]bool{}
			for _, x := range obs.Net.All() {
				if x.Fault.Kind == FPanic && x.Rec.Outcome == "panic" {
					kinds[x.Fault.Param%3] = true
				}
			}
			if len(kinds) > 1 {
				st.Probes["panics_of_several_value_types_in_one_check"]++
			}
		}
		for _, co := range obs.Calls {
			expectPanic := sc.PanicAt != "" && sc.panicReaches(obs, co)
			if expectPanic {
				rc.anteTrue("C17.R4")
				st.Probes["panic_injected_"+sc.PanicAt]++
				if !co.Panicked {
					rc.fail("C17.R4", "panic_lost/"+sc.PanicAt+"/"+entryNames[co.World.Entry], fmt.Sprintf("caller %d.%d via %s: a panic was raised inside a per-certificate check (%s) but the call returned normally", co.World.ID, co.Rep, entryNames[co.World.Entry], sc.PanicAt))
				} else if !isInjectedPanic(co.PanicVal, obs.PanicToken) {
					rc.fail("C17.R4", "panic_value_changed/"+sc.PanicAt, fmt.Sprintf("caller %d.%d: recovered %v instead of the injected panic value", co.World.ID, co.Rep, co.PanicVal))
				}
			} else if co.Panicked {
				rc.fail("C17.R4", "unexpected_panic/"+panicSig(co.PanicVal), fmt.Sprintf("caller %d.%d via %s: unexpected panic %v", co.World.ID, co.Rep, entryNames[co.World.Entry], co.PanicVal))
			}
		}
		// R5 (c): a check fails for reasons of its own, never because of what
		// happened to another caller: a Fetch of a plain-HTTP location that
		// failed although this caller's context was live, its cache calls did
		// not fail and NOT ONE request of this caller went out to the location
		// was refused on the strength of somebody else's experience
		if (sc.Cancel == CancelNone || sc.CancelOnly != 0) && sc.PanicAt == "" && sc.Fetcher != FetchStub && len(obs.Calls) > 1 {
			cancelled := map[int]bool{} // caller keys the cancellation applies to
			if sc.Cancel != CancelNone {
				for _, co := range obs.Calls {
					if sc.cancelApplies(co.World, co.Rep) {
						cancelled[co.World.callerKeyOf(co.Rep)] = true
					}
				}
			}
			normal := map[string]bool{}
			for _, w := range sc.Worlds {
				for _, cp := range w.Certs {
					for _, s := range cp.CRL {
						if s.URLKind == UNormal {
							normal[s.URL] = true
						}
					}
				}
			}
			var cops []CacheOp
			if obs.Cache != nil {
				cops = obs.Cache.AllOps()
			}
			for _, f := range obs.Fetches {
				if !f.Done || f.Err == "" || !normal[f.URL] || cancelled[f.Caller] {
					continue
				}
				rc.anteTrue("C17.R5")
				asked, cacheFailed := false, false
				for _, x := range obs.Net.All() {
					if !x.Rec.Begun || x.URL != f.URL || cancelled[x.Rec.CallerID] {
						continue
					}
					// its own request, or (a fetcher may let overlapping identical
					// downloads share one request) an uncancelled caller's request
					// that was in flight while this Fetch ran
					end := x.Rec.TReturn
					for _, c := range []time.Time{x.Rec.TBodyEnd, x.Rec.TClosed} {
						if c.After(end) {
							end = c
						}
					}
					if !x.Rec.TBegin.After(f.TEnd) && !end.Before(f.TBegin) {
						asked = true
					}
				}
				for _, o := range cops {
					if o.Caller == f.Caller && o.Outcome == "error" && !o.T.Before(f.TBegin) && !o.T.After(f.TEnd) {
						cacheFailed = true
					}
				}
				if !asked && !cacheFailed {
					rc.fail("C17.R5", "fetch_refused_without_request", fmt.Sprintf("caller %d: Fetch(%s) failed at %s (%s) although this caller's context was live, its cache calls did not fail and it sent no request to the location at all", f.Caller, f.URL, rel(f.TEnd), firstLine(f.Err)))
				}
			}
		}
		// R1: schedule independence
		if sc.timeInvariant() {
			canon := canonResults(obs)
			if si == 0 {
				firstCanon = canon
			} else {
				rc.anteTrue("C17.R1")
				if canon != firstCanon {
					rc.fail("C17.R1", "schedule_dependent_results", fmt.Sprintf("results differ between latency vector 0 and %d:\n  %s\n  %s", si, firstCanon, canon))
					rr.Trace = revTrace(sc, obs)
				}
			}
		}
		// R5 (b): each caller's results equal Ref on what that caller observed
		if sc.Cancel == CancelNone || sc.CancelOnly != 0 {
			for _, co := range obs.Calls {
				if !co.Panicked && (sc.Cancel == CancelNone || !sc.cancelApplies(co.World, co.Rep)) {
					sc.evalRevCall(rc, obs, co)
				}
			}
		}
	}
	// R5 (a): non-interference, each caller alone gets what it got in company
	if len(obs0.Calls) > 1 && sc.timeInvariant() && sc.Fetcher != FetchRealCache && !raceEnabled {
		for _, w := range sc.Worlds {
			alone := ExecRev(sc, 0, w.ID, nil)
			st.Bubbles++
			if alone.HarnessErr != "" {
				rr.Harness = alone.HarnessErr
				return rr
			}
			rc.anteTrue("C17.R5")
			var inCompany []string
			for _, co := range obs0.Calls {
				if co.World == w {
					inCompany = append(inCompany, canonCall(co))
				}
			}
			for i, co := range alone.Calls {
				if i < len(inCompany) && canonCall(co) != inCompany[i] {
					rc.fail("C17.R5", "interference", fmt.Sprintf("caller %d.%d got a different result in company of %d other callers:\n  alone:   %s\n  company: %s", w.ID, co.Rep, len(obs0.Calls)-1, canonCall(co), inCompany[i]))
				}
			}
		}
	}
	st.Probes[fmt.Sprintf("callers_%02d", len(obs0.Calls))]++
	rr.Nontrivial = fired > 0 || len(obs0.Calls) > 1 || sc.PanicAt != ""
	rr.Violations = dedupeViolations(rc.out, "C17")
	rr.TraceHash = traceHash(rr.Trace)
	return rr
}

func canonCall(co *CallObs) string {
	var rs []string
	for _, r := range co.Results {
		rs = append(rs, fmtResult(r))
	}
	e := "nil"
	if co.Err != nil {
		e = fmt.Sprintf("%T", co.Err)
	}
	return fmt.Sprintf("err=%s panic=%v: %s", e, co.Panicked, strings.Join(rs, " ; "))
}

// panicReaches tells whether the injected panic site was actually executed by
// this caller.
func (sc *RevScenario) panicReaches(obs *RevObs, co *CallObs) bool {
	if co.World.ID != sc.PanicWorld {
		return false
	}
	w := co.World
	if sc.PanicCert >= len(w.Certs) {
		return false
	}
	cp := w.Certs[sc.PanicCert]
	switch sc.PanicAt {
	case "transport":
		if co.Rep != sc.PanicRep {
			return false
		}
		for _, c := range w.Certs {
			for _, s := range c.OCSP {
				for _, x := range s.X[co.Rep : co.Rep+1] {
					if x.Fault.Kind == FPanic && x.Rec.Outcome == "panic" {
						return true
					}
				}
			}
			for _, s := range c.CRL {
				if x := s.XBase[co.Rep]; x.Fault.Kind == FPanic && x.Rec.Outcome == "panic" {
					return true
				}
			}
		}
	case "fetcher":
		if co.Rep != sc.PanicRep {
			return false
		}
		for _, f := range obs.Fetches {
			if f.Caller == w.callerKeyOf(co.Rep) && len(cp.CRL) > 0 && f.URL == cp.CRL[0].URL && !f.Done && obs.fetchPanicked(f) {
				return true
			}
		}
	case "cache":
		if obs.Cache == nil || obs.Cache.PanicOn == "" {
			// no cache in this configuration: the fetcher decorator panics instead
			if co.Rep != sc.PanicRep {
				return false
			}
			for _, f := range obs.Fetches {
				if f.Caller == w.callerKeyOf(co.Rep) && len(cp.CRL) > 0 && f.URL == cp.CRL[0].URL && !f.Done && obs.fetchPanicked(f) {
					return true
				}
			}
			return false
		}
		for _, f := range obs.Fetches {
			if f.Caller == w.callerKeyOf(co.Rep) && f.URL == obs.Cache.PanicOn && !f.Done {
				return true
			}
		}
	}
	return false
}

func (obs *RevObs) fetchPanicked(f *FetchRec) bool { return !f.TBegin.IsZero() && !f.Done }

func init() {
	registerProp(&PropDef{ID: "C09", Run: runC09})
	registerProp(&PropDef{ID: "C17", Run: runC17})
}
