package sim

import (
	"context"
	"crypto/x509"
	"encoding/asn1"
	"encoding/base64"
	"errors"
	"fmt"
	"math/big"
	"net/http"
	"net/url"
	"strings"
	"sync"
	"testing/synctest"
	"time"

	"github.com/notaryproject/notation-core-go/revocation"
	corecrl "github.com/notaryproject/notation-core-go/revocation/crl"
	coreocsp "github.com/notaryproject/notation-core-go/revocation/ocsp"
	"github.com/notaryproject/notation-core-go/revocation/purpose"
	"github.com/notaryproject/notation-core-go/revocation/result"
	xocsp "golang.org/x/crypto/ocsp"
)

const (
	ocspReadCap = 20480
	crlReadCap  = 32 * 1024 * 1024
)

// ---------- materialisation ----------

func (w *World) materialise(ka *keyAllocator) error {
	n := len(w.Certs)
	nb, na := Epoch.Add(-365*24*time.Hour), Epoch.Add(20*365*24*time.Hour)
	for pos := n - 1; pos >= 0; pos-- {
		cp := w.Certs[pos]
		if w.CloneOf != nil && !(w.SiblingLeaf && pos == 0) {
			// a later validation of the same chain: same certificates
			cp.C = w.CloneOf.Certs[pos].C
			continue
		}
		if w.UseSysRoot && pos == n-1 && n > 1 {
			cp.C = sysRoot
			continue
		}
		spec := &CertSpec{
			CN: fmt.Sprintf("w%d-cert%d", w.ID, pos), Key: ka.get(cp.KeyKind), Serial: cp.Serial,
			NotBefore: nb, NotAfter: na, MaxPathLen: -1,
		}
		for _, s := range cp.OCSP {
			spec.OCSP = append(spec.OCSP, s.URL)
		}
		for _, s := range cp.CRL {
			spec.CRL = append(spec.CRL, s.URL)
		}
		if cp.Freshest {
			spec.Freshest = []string{fmt.Sprintf("http://certfresh%d.w%d.sim/delta.crl", pos, w.ID)}
		}
		if pos == 0 && (n > 1 || w.ChainDefect != ChainLeafIsCA) {
			spec.KeyUsage = x509.KeyUsageDigitalSignature
			if w.Purpose == 1 {
				spec.TSALeaf = true
			}
		}
		if pos > 0 || (w.ChainDefect == ChainLeafIsCA) {
			spec.IsCA = true
			spec.KeyUsage = x509.KeyUsageCertSign | x509.KeyUsageCRLSign
			if cp.NoCRLSign {
				spec.KeyUsage = x509.KeyUsageCertSign
			}
		}
		if pos == 0 && w.ChainDefect == ChainLeafIsCA {
			spec.KeyUsage |= x509.KeyUsageDigitalSignature
		}
		if w.TSADefect != TDNone {
			w.applyTSADefect(spec, pos, n, ka)
		}
		if w.ChainDefect == ChainTSALeafEKU && pos == 0 {
			spec.TSALeaf = false
			switch w.EKUVariant {
			case 0:
				spec.RawEKU, spec.RawEKUCrit = []asn1.ObjectIdentifier{{1, 3, 6, 1, 4, 1, 99999, 3, 1}}, true
			case 1:
			case 2:
				spec.RawEKU, spec.RawEKUCrit = []asn1.ObjectIdentifier{oidEKUTimeStamping, oidEKUCodeSigning}, true
			case 3:
				spec.EKU = []x509.ExtKeyUsage{x509.ExtKeyUsageTimeStamping}
			}
		}
		var parent *Cert
		if pos < n-1 {
			parent = w.Certs[pos+1].C
		}
		if cp.SameName && parent != nil {
			spec.RawSubject = parent.X.RawSubject
		}
		if cp.EmptyName && pos == 0 && n > 1 {
			spec.EmptyName = true
		}
		c, err := Issue(spec, parent)
		if err != nil {
			return err
		}
		cp.C = c
	}
	w.Siblings, w.Delegates, w.BadDeleg = map[int]*Cert{}, map[int]*Cert{}, map[int]*Cert{}
	needOther := false
	for pos, cp := range w.Certs {
		if pos == n-1 {
			continue
		}
		issuer := w.Certs[pos+1].C
		for _, s := range cp.OCSP {
			switch s.Content.Signer {
			case SgDelegate:
				if w.Delegates[pos] == nil {
					c, err := Issue(&CertSpec{CN: fmt.Sprintf("w%d-deleg%d", w.ID, pos), Key: ka.get("ec256"), Serial: big.NewInt(int64(7000 + pos)),
						NotBefore: nb, NotAfter: na, KeyUsage: x509.KeyUsageDigitalSignature, OCSPSigner: true, MaxPathLen: -1}, issuer)
					if err != nil {
						return err
					}
					w.Delegates[pos] = c
				}
			case SgSiblingIssuerName:
				if w.NameTwins == nil {
					w.NameTwins = map[int]*Cert{}
				}
				if w.NameTwins[pos] == nil {
					c, err := Issue(&CertSpec{CN: "twin", RawSubject: issuer.X.RawSubject, Key: ka.get("ec256"), Serial: big.NewInt(int64(7300 + pos)),
						NotBefore: nb, NotAfter: na, KeyUsage: x509.KeyUsageDigitalSignature, MaxPathLen: -1}, issuer)
					if err != nil {
						return err
					}
					w.NameTwins[pos] = c
				}
			case SgSibling:
				if w.Siblings[pos] == nil {
					c, err := Issue(&CertSpec{CN: fmt.Sprintf("w%d-sibling%d", w.ID, pos), Key: ka.get("ec256"), Serial: big.NewInt(int64(7100 + pos)),
						NotBefore: nb, NotAfter: na, KeyUsage: x509.KeyUsageDigitalSignature, MaxPathLen: -1}, issuer)
					if err != nil {
						return err
					}
					w.Siblings[pos] = c
				}
			case SgOtherCADeleg:
				needOther = true
			case SgUnrelated, SgUnrelatedSelf:
				needOther = true
			}
		}
		for _, s := range cp.CRL {
			if s.Base.SignerKind != "issuer" || s.Delta.SignerKind != "issuer" || s.CacheSeed == 3 {
				needOther = true
			}
		}
	}
	if needOther {
		oc, err := Issue(&CertSpec{CN: fmt.Sprintf("w%d-otherca", w.ID), Key: ka.get("ec256"), Serial: big.NewInt(9000), IsCA: true,
			KeyUsage: x509.KeyUsageCertSign | x509.KeyUsageCRLSign, NotBefore: nb, NotAfter: na, MaxPathLen: -1}, nil)
		if err != nil {
			return err
		}
		w.OtherCA = oc
		w.Unrelated = ka.get("ec256")
		uc, err := Issue(&CertSpec{CN: fmt.Sprintf("w%d-unrelated", w.ID), Key: w.Unrelated, Serial: big.NewInt(9001),
			KeyUsage: x509.KeyUsageDigitalSignature, OCSPSigner: true, NotBefore: nb, NotAfter: na, MaxPathLen: -1}, nil)
		if err != nil {
			return err
		}
		w.UnrelCert = uc
		for pos, cp := range w.Certs {
			for _, s := range cp.OCSP {
				if s.Content.Signer == SgOtherCADeleg && w.BadDeleg[pos] == nil {
					c, err := Issue(&CertSpec{CN: fmt.Sprintf("w%d-baddeleg%d", w.ID, pos), Key: ka.get("ec256"), Serial: big.NewInt(int64(7200 + pos)),
						NotBefore: nb, NotAfter: na, KeyUsage: x509.KeyUsageDigitalSignature, OCSPSigner: true, MaxPathLen: -1}, oc)
					if err != nil {
						return err
					}
					w.BadDeleg[pos] = c
				}
			}
		}
	}
	return nil
}

// applyTSADefect turns the honest certificate spec into the defective one.
func (w *World) applyTSADefect(spec *CertSpec, pos, n int, ka *keyAllocator) {
	leaf, issuerOfLeaf := pos == 0, pos == 1
	switch w.TSADefect {
	case TDLeafExpired:
		if leaf {
			spec.NotAfter = Epoch.Add(-time.Hour)
		}
	case TDLeafNotYet:
		if leaf {
			spec.NotBefore = Epoch.Add(24 * time.Hour)
		}
	case TDEKUNonCritical:
		if leaf {
			spec.TSALeaf = false
			spec.EKU = []x509.ExtKeyUsage{x509.ExtKeyUsageTimeStamping}
		}
	case TDEKUExtra:
		if leaf {
			spec.TSALeaf = false
			spec.RawEKU, spec.RawEKUCrit = []asn1.ObjectIdentifier{oidEKUTimeStamping, oidEKUCodeSigning}, true
		}
	case TDEKUUnknownExtra:
		if leaf {
			spec.TSALeaf = false
			spec.RawEKU, spec.RawEKUCrit = []asn1.ObjectIdentifier{oidEKUTimeStamping, {1, 3, 6, 1, 4, 1, 99999, 3, 1}}, true
		}
	case TDEKUAbsent:
		if leaf {
			spec.TSALeaf = false
		}
	case TDCANoCertSign:
		if issuerOfLeaf {
			spec.KeyUsage = x509.KeyUsageCRLSign | x509.KeyUsageDigitalSignature
		}
	case TDPathLen:
		if pos == n-1 && n >= 3 {
			spec.MaxPathLen = 0
		}
	case TDLeafKUExtra:
		if leaf {
			spec.KeyUsage = x509.KeyUsageDigitalSignature | x509.KeyUsageKeyEncipherment
		}
	case TDLeafKUAbsent:
		if leaf {
			spec.NoKeyUsage = true
		}
	case TDLeafNoDigSig:
		if leaf {
			spec.KeyUsage = x509.KeyUsageContentCommitment
		}
	case TDLeafIsCA:
		if leaf {
			spec.IsCA = true
		}
	case TDLeafRSA1024:
		if leaf {
			spec.Key = ka.get("rsa1024")
		}
	case TDLeafP224:
		if leaf {
			spec.Key = ka.get("ec224")
		}
	case TDCANoKU:
		if issuerOfLeaf {
			spec.NoKeyUsage = true
		}
	case TDCAEKUExcludes:
		if issuerOfLeaf {
			spec.EKU = []x509.ExtKeyUsage{x509.ExtKeyUsageServerAuth, x509.ExtKeyUsageClientAuth}
		}
	}
}

// chain returns the certificate list handed to the library, with the planned
// chain defect applied.
func (w *World) chain() []*x509.Certificate {
	var c []*x509.Certificate
	for _, cp := range w.Certs {
		c = append(c, cp.C.X)
	}
	switch w.ChainDefect {
	case ChainEmpty:
		return nil
	case ChainReversed:
		if len(c) < 2 {
			return nil
		}
		for i, j := 0, len(c)-1; i < j; i, j = i+1, j-1 {
			c[i], c[j] = c[j], c[i]
		}
	case ChainMissingRoot:
		if len(c) < 2 {
			return nil
		}
		c = c[:len(c)-1]
	case ChainSwapped:
		if len(c) < 2 {
			return nil
		}
		c[0], c[1] = c[1], c[0]
	case ChainDupLeaf:
		c = append([]*x509.Certificate{c[0]}, c...)
	}
	return c
}

func (w *World) purposeForCall() purpose.Purpose {
	p := purpose.CodeSigning
	if w.Purpose == 1 {
		p = purpose.Timestamping
	}
	if w.ChainDefect == ChainWrongPurpose {
		if p == purpose.CodeSigning {
			p = purpose.Timestamping
		} else {
			p = purpose.CodeSigning
		}
	}
	return p
}

// ---------- OCSP responder ----------

type ocspReqInfo struct {
	OK     bool
	Serial *big.Int
	Name   []byte
	KeyH   []byte
}

func decodeOCSPReq(req *http.Request, body []byte) *ocspReqInfo {
	var der []byte
	if req.Method == http.MethodPost {
		der = body
	} else {
		p := req.URL.EscapedPath()
		if i := strings.LastIndex(p, "/"); i >= 0 {
			p = p[i+1:]
		}
		un, err := url.PathUnescape(p)
		if err != nil {
			return &ocspReqInfo{}
		}
		// the library query-escapes base64; undo both layers
		if un2, err := url.QueryUnescape(un); err == nil {
			un = un2
		}
		un = strings.ReplaceAll(un, " ", "+")
		der, err = base64.StdEncoding.DecodeString(un)
		if err != nil {
			return &ocspReqInfo{}
		}
	}
	r, err := xocsp.ParseRequest(der)
	if err != nil {
		return &ocspReqInfo{}
	}
	return &ocspReqInfo{OK: true, Serial: r.SerialNumber, Name: r.IssuerNameHash, KeyH: r.IssuerKeyHash}
}

func (w *World) invalidityFor(kind int) time.Time {
	st := stBase
	if !w.InvBase.IsZero() {
		st = w.InvBase
	}
	if w.HasST {
		st = w.ST
	}
	switch kind {
	case InvBefore:
		return st.Truncate(time.Second).Add(-time.Hour)
	case InvEqual:
		return st.Truncate(time.Second)
	case InvAfter:
		return st.Truncate(time.Second).Add(time.Second)
	}
	return st
}

func (w *World) serveOCSP(cp *CertPlan, src *OCSPSrc) func(x *Exchange, req *http.Request, body []byte, now time.Time) ([]byte, string) {
	return func(x *Exchange, req *http.Request, body []byte, now time.Time) ([]byte, string) {
		c := src.Content
		sv := &OCSPServed{Content: c}
		x.Rec.Served = sv
		var ri *ocspReqInfo
		if x.Rec.ReqInfo != nil {
			ri = x.Rec.ReqInfo.(*ocspReqInfo)
		} else {
			ri = decodeOCSPReq(req, body)
		}
		issuer := w.Certs[cp.Pos+1].C
		if !ri.OK {
			b := encodeOCSPError(1)
			sv.Content.ErrStatus = 1
			sv.Len = len(b)
			return b, "application/ocsp-response"
		}
		sv.ReqSerialOK = ri.Serial.Cmp(cp.Serial) == 0
		sv.ReqIssuerOK = string(ri.KeyH) == string(subjectKeySHA1(issuer.X))
		if c.ErrStatus != 0 {
			b := encodeOCSPError(c.ErrStatus)
			sv.Len = len(b)
			return b, "application/ocsp-response"
		}
		spec := &OCSPRespSpec{ProducedAt: now, ByName: c.ByName}
		mk := func(serial *big.Int, status int) OCSPSingleSpec {
			sg := OCSPSingleSpec{Serial: serial, IssuerName: issuer.X.RawSubject, IssuerKeyHash: subjectKeySHA1(issuer.X),
				Status: status, ThisUpdate: now.Add(-time.Hour), NextUpdate: resolveNext(c.NextKind, now)}
			if status == StRevoked {
				sg.RevokedAt = now.Add(-time.Duration(c.RevAgo) * time.Hour)
				sg.Reason = c.Reason
			}
			if status == StRevoked || c.InvOnAny {
				switch c.InvKind {
				case InvBefore, InvEqual, InvAfter:
					sv.Invalidity = w.invalidityFor(c.InvKind)
					sg.Exts = append(sg.Exts, invalidityDateExt(sv.Invalidity, false, false))
				case InvMalformed:
					sg.Exts = append(sg.Exts, invalidityDateExt(time.Time{}, true, false))
				}
			}
			return sg
		}
		other := func(i int64) *big.Int { return new(big.Int).Add(ri.Serial, big.NewInt(100+i)) }
		status := c.Status
		if !sv.ReqIssuerOK {
			// an honest responder does not know certificates of another CA
			status = StUnknown
			sv.Content.Status = StUnknown
		}
		switch c.SerialKind {
		case SrWanted:
			spec.Singles = []OCSPSingleSpec{mk(ri.Serial, status)}
			sv.SerialMatch = sv.ReqSerialOK
		case SrOther:
			spec.Singles = []OCSPSingleSpec{mk(other(0), StGood)}
		case SrMultiFirst:
			spec.Singles = []OCSPSingleSpec{mk(ri.Serial, status), mk(other(1), StGood), mk(other(2), StGood)}
			sv.SerialMatch = sv.ReqSerialOK
		case SrMultiLast:
			spec.Singles = []OCSPSingleSpec{mk(other(1), StGood), mk(other(2), StGood), mk(ri.Serial, status)}
			sv.SerialMatch = sv.ReqSerialOK
		case SrMultiAbsent:
			spec.Singles = []OCSPSingleSpec{mk(other(1), StGood), mk(other(2), StGood)}
		}
		sv.NextUpdate = resolveNext(c.NextKind, now)
		switch c.Signer {
		case SgIssuer, SgFlipSig, SgFlipTBS:
			spec.SignerKey, spec.ResponderCert = issuer.Key, issuer.X
			spec.FlipSig, spec.FlipTBS = c.Signer == SgFlipSig, c.Signer == SgFlipTBS
		case SgDelegate:
			d := w.Delegates[cp.Pos]
			spec.SignerKey, spec.ResponderCert, spec.Embed = d.Key, d.X, []*x509.Certificate{d.X}
		case SgSelf:
			spec.SignerKey, spec.ResponderCert, spec.Embed = cp.C.Key, cp.C.X, []*x509.Certificate{cp.C.X}
		case SgSibling:
			d := w.Siblings[cp.Pos]
			spec.SignerKey, spec.ResponderCert, spec.Embed = d.Key, d.X, []*x509.Certificate{d.X}
		case SgSiblingIssuerName:
			d := w.NameTwins[cp.Pos]
			spec.SignerKey, spec.ResponderCert, spec.Embed = d.Key, d.X, []*x509.Certificate{d.X}
		case SgOtherCADeleg:
			d := w.BadDeleg[cp.Pos]
			spec.SignerKey, spec.ResponderCert, spec.Embed = d.Key, d.X, []*x509.Certificate{d.X}
		case SgUnrelated:
			spec.SignerKey, spec.ResponderCert = w.Unrelated, issuer.X
		case SgUnrelatedSelf:
			spec.SignerKey, spec.ResponderCert, spec.Embed = w.UnrelCert.Key, w.UnrelCert.X, []*x509.Certificate{w.UnrelCert.X}
		}
		if c.NoEmbed {
			switch c.Signer {
			case SgSelf, SgSibling, SgSiblingIssuerName, SgOtherCADeleg:
				spec.Embed = nil
			}
		}
		if c.Pad != 0 && x.ReadCap > 0 {
			spec.PadTo = int(x.ReadCap) + c.Pad - 2
		}
		b := EncodeOCSP(spec)
		sv.Len = len(b)
		if spec.PadTo > 0 && len(b) != spec.PadTo {
			sv.Content.Pad = 0 // not reachable for this signer (signature values of varying length)
		}
		if selfCheckSampled(x, len(b)) {
			selfCheckOCSP(b, sv, cp.Serial, issuer.X)
		}
		return b, "application/ocsp-response"
	}
}

// ---------- CRL distribution points ----------

// CRLServed is recorded by a distribution point at the delivery instant.
type CRLServed struct {
	Spec *CRLSpec
}

func (w *World) buildCRL(cp *CertPlan, src *CRLSrc, plan *CRLPlan, isDelta bool, now time.Time) *CRLSpec {
	issuer := w.Certs[cp.Pos+1].C
	s := &CRLSpec{SignerKind: plan.SignerKind, IssuerName: issuer.X.RawSubject, ThisUpdate: now.Add(-time.Hour),
		NextUpdate: resolveNext(plan.NextKind, now), Number: src.BaseNum,
		IDPCritical: plan.IDPCritical, UnknownCrit: plan.UnknownCrit, UnknownNon: plan.UnknownNon}
	switch plan.SignerKind {
	case "issuer", "sigflip", "stale_sig":
		s.SignerKey = issuer.Key
		if plan.SignerKind == "stale_sig" {
			if m := w.base().sigMemo[cp.Pos+1].Load(); m != nil {
				s.ForeignSig, s.ForeignTBS = m.sig, m.tbs
			}
		}
	case "other_ca":
		s.SignerKey = w.OtherCA.Key
	default:
		s.SignerKey = w.Unrelated
	}
	if isDelta {
		if plan.EarlyThis {
			s.ThisUpdate = now.Add(-3 * time.Hour)
		}
		s.Number = src.BaseNum + plan.NumOff
		switch plan.IndKind {
		case 0:
			s.HasInd, s.Indicator = true, src.BaseNum+plan.IndOff
		case 2:
			s.HasInd, s.IndBad = true, true
		}
	} else if src.FrShape != FrAbsent {
		var us []string
		var ok bool
		s.Freshest, us, ok = freshestValue(src.FrShape, src.DeltaURL)
		if ok {
			s.FreshURIs = len(us)
		}
	}
	if plan.NumberAbs {
		s.Number = -1
	}
	for i, e := range plan.Entries {
		es := CRLEntrySpec{Match: e.Match, Reason: e.Reason, RevTime: revTime(e.RevIdx), InvKind: e.InvKind, CriticalExt: e.Crit, CritFirst: e.CritFirst}
		ref := cp.Serial
		if w.SiblingLeaf && cp.Pos == 0 {
			// the CA's lists do not change because another of its
			// certificates is being checked
			ref = w.CloneOf.Certs[0].Serial
		}
		if e.Match {
			es.Serial = ref
		} else {
			es.Serial = new(big.Int).Add(ref, big.NewInt(int64(5000+i)))
		}
		if e.InvKind != InvNone {
			es.Invalidity = w.invalidityFor(e.InvKind)
		}
		s.Entries = append(s.Entries, es)
	}
	EncodeCRL(s)
	if w.StaleSig && s.SignerKind == "issuer" {
		w.base().sigMemo[cp.Pos+1].Store(&sigMemo{sig: s.Sig, tbs: s.TBSHash})
	}
	return s
}

func (w *World) base() *World {
	for w.CloneOf != nil {
		w = w.CloneOf
	}
	return w
}

func (w *World) serveCRL(cp *CertPlan, src *CRLSrc, isDelta bool) func(x *Exchange, req *http.Request, body []byte, now time.Time) ([]byte, string) {
	return func(x *Exchange, req *http.Request, body []byte, now time.Time) ([]byte, string) {
		plan := &src.Base
		if isDelta {
			plan = &src.Delta
		}
		s := w.buildCRL(cp, src, plan, isDelta, now)
		s.Origin = x.URL
		x.Rec.Served = &CRLServed{Spec: s}
		if selfCheckSampled(x, len(s.DER)) {
			selfCheckCRL(s, w.Certs[cp.Pos+1].C.X)
		}
		return s.DER, "application/pkix-crl"
	}
}

// serveCRLSecond is the distribution point's answer to a second request for
// the base list within one check: by now it serves an authentic, current list
// (a newer publication, without freshest-CRL pointer).
func (w *World) serveCRLSecond(cp *CertPlan, src *CRLSrc) func(x *Exchange, req *http.Request, body []byte, now time.Time) ([]byte, string) {
	return func(x *Exchange, req *http.Request, body []byte, now time.Time) ([]byte, string) {
		plan := &CRLPlan{SignerKind: "issuer"}
		if src.Second == 2 {
			plan.Entries = []EntryPlan{{Match: true, Reason: 1, RevIdx: 0}}
		}
		second := *src
		second.BaseNum = src.BaseNum + 1
		second.FrShape, second.DeltaURL = FrAbsent, nil
		s := w.buildCRL(cp, &second, plan, false, now)
		s.Origin = x.URL
		x.Rec.Served = &CRLServed{Spec: s}
		return s.DER, "application/pkix-crl"
	}
}

// ---------- recording fetcher decorator and stub fetcher ----------

// FetchRec is one observed Fetcher.Fetch call.
type FetchRec struct {
	URL    string
	Caller int
	TBegin time.Time
	TEnd   time.Time
	Done   bool
	Err    string
	Base   string
	Delta  string
	Specs  []*CRLSpec // stub mode: specs built for this call
}

type fetchSlot struct {
	recs [8]FetchRec
	n    int
}

type recFetcher struct {
	inner       corecrl.Fetcher
	slots       map[string]*fetchSlot // caller|url, read-only map
	mu          sync.Mutex
	extra       []*FetchRec
	panicOn     string
	panicCaller int
	panicV      any
}

func (f *recFetcher) slot(caller int, u string) *FetchRec {
	if s := f.slots[fmt.Sprintf("%d|%s", caller, u)]; s != nil && s.n < len(s.recs) {
		r := &s.recs[s.n]
		s.n++
		return r
	}
	f.mu.Lock()
	defer f.mu.Unlock()
	r := &FetchRec{}
	f.extra = append(f.extra, r)
	return r
}

func (f *recFetcher) Fetch(ctx context.Context, u string) (*corecrl.Bundle, error) {
	caller := callerOf(ctx)
	r := f.slot(caller, u)
	r.URL, r.Caller, r.TBegin = u, caller, time.Now()
	if f.panicOn != "" && f.panicOn == u && f.panicCaller == caller {
		panic(f.panicV)
	}
	b, err := f.inner.Fetch(ctx, u)
	r.TEnd, r.Done = time.Now(), true
	if err != nil {
		r.Err = err.Error()
		return nil, err
	}
	r.Base, r.Delta = bundleHashes(b)
	if sf, ok := f.inner.(*stubFetcher); ok {
		r.Specs = sf.last(caller, u)
	}
	return b, nil
}

func (f *recFetcher) all() []*FetchRec {
	var out []*FetchRec
	keys := make([]string, 0, len(f.slots))
	for k := range f.slots {
		keys = append(keys, k)
	}
	sortStrings(keys)
	for _, k := range keys {
		s := f.slots[k]
		for i := 0; i < s.n; i++ {
			out = append(out, &s.recs[i])
		}
	}
	out = append(out, f.extra...)
	return out
}

// stubFetcher returns constructed bundles without any HTTP.
type stubFetcher struct {
	srcs  map[string]*stubSrc // caller|url
	lasts map[string]*[]*CRLSpec
}

type stubSrc struct {
	w   *World
	cp  *CertPlan
	src *CRLSrc
}

func (s *stubFetcher) last(caller int, u string) []*CRLSpec {
	if p := s.lasts[fmt.Sprintf("%d|%s", caller, u)]; p != nil {
		return *p
	}
	return nil
}

func (s *stubFetcher) Fetch(ctx context.Context, u string) (*corecrl.Bundle, error) {
	caller := callerOf(ctx)
	k := fmt.Sprintf("%d|%s", caller, u)
	ss := s.srcs[k]
	if ss == nil {
		return nil, errors.New("sim: stub has no such distribution point")
	}
	if err := sleepCtx(ctx, ss.src.BaseLat); err != nil {
		return nil, err
	}
	if ss.src.StubErr {
		return nil, errors.New("sim: stub fetch failure")
	}
	now := time.Now()
	base := ss.w.buildCRL(ss.cp, ss.src, &ss.src.Base, false, now)
	base.Origin = ss.src.URL
	bx, err := x509.ParseRevocationList(base.DER)
	if err != nil {
		return nil, fmt.Errorf("sim: stub base unparsable: %w", err)
	}
	b := &corecrl.Bundle{BaseCRL: bx}
	specs := []*CRLSpec{base}
	if ss.src.HasDelta {
		d := ss.w.buildCRL(ss.cp, ss.src, &ss.src.Delta, true, now)
		dx, err := x509.ParseRevocationList(d.DER)
		if err != nil {
			return nil, fmt.Errorf("sim: stub delta unparsable: %w", err)
		}
		b.DeltaCRL = dx
		specs = append(specs, d)
	}
	*s.lasts[k] = specs
	return b, nil
}

// ---------- execution ----------

// CallObs is what one caller observed.
type CallObs struct {
	World    *World
	Rep      int
	Results  []*result.CertRevocationResult
	Err      error
	Panicked bool
	PanicVal any
	TStart   time.Time
	TReturn  time.Time
	Returned bool
}

// RevObs is everything observed in one bubble.
type RevObs struct {
	Calls      []*CallObs
	Net        *Net
	Fetches    []*FetchRec
	Cache      *SimCache
	BubbleErr  string // deadlock / leaked goroutines message
	InFlight   []string
	LateEvents []string
	HarnessErr string
	TEnd       time.Time
	T0         time.Time // instant at which the calls were started
	PanicToken any
}

type panicToken struct{ id string }

// Panics raised at several sites of one check have values of different
// concrete types (a component may panic with anything): the transport's value
// depends on the certificate position.
type panicTokenB struct{ id string }
type panicTokenErr struct{ id string }

func (e *panicTokenErr) Error() string { return e.id }

// injectedPanicValue is the value the transport panics with at a position.
func injectedPanicValue(pv any, pos int) any {
	switch pos % 3 {
	case 1:
		return panicTokenB{id: "sim-injected-panic/B"}
	case 2:
		return &panicTokenErr{id: "sim-injected-panic/error"}
	}
	return pv
}

// isInjectedPanic: the recovered value is one of the injected ones, unchanged.
func isInjectedPanic(v, pv any) bool {
	if v == pv {
		return true
	}
	switch x := v.(type) {
	case panicTokenB:
		return x.id == "sim-injected-panic/B"
	case *panicTokenErr:
		return x.id == "sim-injected-panic/error"
	}
	return false
}

func (sc *RevScenario) planExchanges(nt *Net, altSeed uint32) {
	var lt *Tape
	if altSeed != 0 {
		lt = NewTape(uint64(altSeed), 77)
	}
	lat := func(d time.Duration) time.Duration {
		if lt == nil {
			return d
		}
		return genLatency(lt, sc.Prof.LatMax)
	}
	// forced permutation of the completion order of the first exchange of
	// every per-certificate check: altSeed = permFlag | rank
	permRank := -1
	if altSeed&permFlag != 0 {
		permRank = int(altSeed & 0xffff)
	}
	defer func() {
		if permRank < 0 {
			return
		}
		for _, w := range sc.Worlds {
			m := len(w.Certs) - 1
			if m < 1 {
				continue
			}
			perm := unrankPerm(m, permRank)
			for rep := 0; rep < w.reps(); rep++ {
				for pos := 0; pos < m; pos++ {
					cp := w.Certs[pos]
					var first *Exchange
					switch {
					case len(cp.OCSP) > 0:
						first = cp.OCSP[0].X[rep]
					case len(cp.CRL) > 0:
						first = cp.CRL[0].XBase[rep]
					}
					if first != nil {
						first.Latency = time.Duration(7*(perm[pos]+1)) * time.Millisecond
					}
				}
			}
		}
	}()
	for _, w := range sc.Worlds {
		w.fetchSlots = map[string]*fetchSlot{}
		for _, cp := range w.Certs {
			for _, s := range cp.OCSP {
				s.X = nil
			}
			for _, s := range cp.CRL {
				s.XBase = nil
				s.XDelta = make([][]*Exchange, len(s.DeltaURL))
			}
		}
		for rep := 0; rep < w.reps(); rep++ {
			ck := w.callerKeyOf(rep)
			for _, cp := range w.Certs {
				isRoot := cp.Pos == len(w.Certs)-1
				for i, s := range cp.OCSP {
					x := &Exchange{URL: s.URL, Kind: "ocsp", CertPos: cp.Pos, SrcIdx: i, Latency: lat(s.Latency), Fault: s.Fault, ReadCap: ocspReadCap}
					if !isRoot {
						x.Serve = w.serveOCSP(cp, s)
					}
					if sc.PanicAt == "transport" && sc.PanicWorld == w.ID && sc.PanicRep == rep && sc.panicsAt(cp.Pos) && i == 0 {
						x.Fault = Fault{Kind: FPanic, Param: cp.Pos}
					}
					nt.Plan(ck, x)
					s.X = append(s.X, x)
				}
				for i, s := range cp.CRL {
					x := &Exchange{URL: s.URL, Kind: "crl", CertPos: cp.Pos, SrcIdx: i, Latency: lat(s.BaseLat), Fault: s.BaseFault, ReadCap: crlReadCap}
					if !isRoot {
						x.Serve = w.serveCRL(cp, s, false)
					}
					if sc.PanicAt == "transport" && sc.PanicWorld == w.ID && sc.PanicRep == rep && sc.panicsAt(cp.Pos) && i == 0 && len(cp.OCSP) == 0 {
						x.Fault = Fault{Kind: FPanic, Param: cp.Pos}
					}
					nt.Plan(ck, x)
					s.XBase = append(s.XBase, x)
					var x2 *Exchange
					if s.Second != 0 && !isRoot {
						// the next request of this caller for the same URL
						x2 = &Exchange{URL: s.URL, Kind: "crl", CertPos: cp.Pos, SrcIdx: i, Latency: lat(s.BaseLat), ReadCap: crlReadCap, Serve: w.serveCRLSecond(cp, s)}
						nt.Plan(ck, x2)
					}
					s.XBase2 = append(s.XBase2, x2)
					for j, du := range s.DeltaURL {
						dx := &Exchange{URL: du, Kind: "delta", CertPos: cp.Pos, SrcIdx: i, Latency: lat(s.DeltaLat[j]), Fault: s.DeltaFault[j], ReadCap: crlReadCap}
						if !isRoot {
							dx.Serve = w.serveCRL(cp, s, true)
						}
						nt.Plan(ck, dx)
						s.XDelta[j] = append(s.XDelta[j], dx)
					}
					w.fetchSlots[fmt.Sprintf("%d|%s", ck, s.URL)] = &fetchSlot{}
				}
			}
		}
	}
}

func (sc *RevScenario) panicsAt(pos int) bool {
	if pos == sc.PanicCert {
		return true
	}
	for _, c := range sc.PanicCerts {
		if c == pos {
			return true
		}
	}
	return false
}

const permFlag = uint32(1) << 31

// unrankPerm returns the rank-th permutation of 0..m-1 (Lehmer code); ranks
// beyond m! wrap around.
func unrankPerm(m, rank int) []int {
	f := 1
	for i := 2; i <= m; i++ {
		f *= i
	}
	rank %= f
	items := make([]int, m)
	for i := range items {
		items[i] = i
	}
	out := make([]int, 0, m)
	for i := m; i >= 1; i-- {
		f /= i
		k := rank / f
		rank %= f
		out = append(out, items[k])
		items = append(items[:k], items[k+1:]...)
	}
	return out
}

func factorial(m int) int {
	f := 1
	for i := 2; i <= m; i++ {
		f *= i
	}
	return f
}

// seedCache pre-populates the cache per plan. Runs inside the bubble at Epoch.
func (sc *RevScenario) seedCache(c *SimCache) error {
	for _, w := range sc.Worlds {
		w.crlReg = nil
		for _, cp := range w.Certs {
			if cp.Pos == len(w.Certs)-1 {
				continue
			}
			for _, s := range cp.CRL {
				c.Declare(s.URL)
				var gp, sp []int
				if s.CacheGetEr {
					gp = []int{1}
				}
				if s.CacheSetEr {
					sp = []int{1}
				}
				c.Plan(s.URL, gp, sp)
				if s.CacheSeed == 0 {
					continue
				}
				bp := s.Base
				bp.NextKind = NuNormal
				switch s.CacheSeed {
				case 2:
					bp.NextKind = NuExpired
				case 3:
					bp.SignerKind = "unrelated"
				case 4:
					bp.NextKind = NuAbsent
				}
				base := w.buildCRL(cp, s, &bp, false, Epoch)
				base.Origin = s.URL
				bx, err := x509.ParseRevocationList(base.DER)
				if err != nil {
					return fmt.Errorf("cache seed base: %w", err)
				}
				w.crlReg = append(w.crlReg, base)
				b := &corecrl.Bundle{BaseCRL: bx}
				if s.HasDelta {
					dp := s.Delta
					d := w.buildCRL(cp, s, &dp, true, Epoch)
					d.Origin = s.URL
					dx, err := x509.ParseRevocationList(d.DER)
					if err != nil {
						return fmt.Errorf("cache seed delta: %w", err)
					}
					w.crlReg = append(w.crlReg, d)
					b.DeltaCRL = dx
				}
				c.Seed(s.URL, b)
			}
		}
	}
	c.Freeze()
	return nil
}

// ExecRev runs the scenario once in a fresh bubble with the given alternative
// latency seed (0 = the planned latencies).
func ExecRev(sc *RevScenario, altSeed uint32, onlyWorld int, hooks *execHooks) (obs *RevObs) {
	obs = &RevObs{}
	defer func() {
		if r := recover(); r != nil {
			obs.BubbleErr = fmt.Sprint(r)
		}
	}()
	runBubble(func() {
		sc.execInBubble(obs, altSeed, onlyWorld, hooks)
	})
	return obs
}

// execHooks lets profiles override parts of the execution.
type execHooks struct {
	healCert int // C06.R5 twin: make all sources of this cert (of world 0) honest; -1 none
}

// revInfra is the simulated deployment around the real validator.
type revInfra struct {
	nt         *Net
	ocspClient *http.Client
	crlClient  *http.Client
	rf         *recFetcher
	cache      *SimCache
	validators map[purpose.Purpose]revocation.Validator
	pv         *panicToken
	ka         *keyAllocator
}

// staggerOf is the start offset of a caller: whole milliseconds plus 7 us per
// position, so that every staggered caller lives on a timer lattice of its
// own and no two callers' events can tie.
// posOf is the position of a caller in the order of the full scenario.
func (sc *RevScenario) posOf(w *World, rep int) int {
	j := 0
	for _, x := range sc.Worlds {
		for r := 0; r < x.reps(); r++ {
			if x == w && r == rep {
				return j
			}
			j++
		}
	}
	return -1
}

// cancelApplies: the scenario's cancellation applies to this caller.
func (sc *RevScenario) cancelApplies(w *World, rep int) bool {
	return sc.CancelOnly == 0 || sc.posOf(w, rep) == sc.CancelOnly-1
}

func (sc *RevScenario) staggerOf(w *World, rep int) time.Duration {
	if len(sc.StaggerMs) == 0 {
		return 0
	}
	j := 0
	for _, x := range sc.Worlds {
		for r := 0; r < x.reps(); r++ {
			if x == w && r == rep {
				if j >= len(sc.StaggerMs) || j == 0 {
					return 0
				}
				return time.Duration(sc.StaggerMs[j])*time.Millisecond + time.Duration(j)*7*time.Microsecond
			}
			j++
		}
	}
	return 0
}

// setup materialises the worlds, plans the exchanges and wires the real
// validator to the simulated network, fetcher and cache. It returns nil after
// recording a harness error.
func (sc *RevScenario) setup(obs *RevObs, altSeed uint32, nt *Net, ka *keyAllocator) *revInfra {
	if ka == nil {
		ka = newKeyAllocator()
	}
	if nt == nil {
		nt = NewNet()
	}
	obs.Net = nt
	pv := &panicToken{id: "sim-injected-panic"}
	nt.PanicValue = pv
	for _, w := range sc.Worlds {
		if w.C0() == nil {
			// keys must be distinct within one world (a shared key would make a
			// forged answer authentic); across worlds reuse is harmless, and a
			// 32-caller scenario would exhaust the pool otherwise
			wka := ka
			switch {
			case w.CloneOf != nil && w.CloneOf.ka != nil:
				// a later validation of the same chain keeps drawing from the
				// chain's allocator (its extra certificates must not reuse chain keys)
				wka = w.CloneOf.ka
			case len(sc.Worlds) > 1:
				wka = newKeyAllocator()
			}
			w.ka = wka
			if err := w.materialise(wka); err != nil {
				obs.HarnessErr = "materialise: " + err.Error()
				return nil
			}
		}
	}
	sc.planExchanges(nt, altSeed)
	// client timeouts end on half-millisecond instants so that they never tie
	// with a planned latency (whole milliseconds)
	half := func(d time.Duration) time.Duration {
		if d == 0 {
			return 0
		}
		return d + 500*time.Microsecond
	}
	ocspClient := &http.Client{Transport: nt, Timeout: half(sc.OCSPTimeout)}
	crlClient := &http.Client{Transport: nt, Timeout: half(sc.CRLTimeout)}
	if sc.SharedClient {
		crlClient = ocspClient
	}
	var fetcher corecrl.Fetcher
	var cache *SimCache
	slots := map[string]*fetchSlot{}
	for _, w := range sc.Worlds {
		for k, v := range w.fetchSlots {
			slots[k] = v
		}
	}
	switch sc.Fetcher {
	case FetchReal, FetchRealCache:
		hf, err := corecrl.NewHTTPFetcher(crlClient)
		if err != nil {
			obs.HarnessErr = err.Error()
			return nil
		}
		if sc.Fetcher == FetchRealCache {
			cache = NewSimCache()
			if err := sc.seedCache(cache); err != nil {
				obs.HarnessErr = err.Error()
				return nil
			}
			cache.Latency = sc.CacheLatency
			cache.WrapMiss = sc.WrapMiss
			hf.Cache = cache
			hf.DiscardCacheError = sc.Discard
			obs.Cache = cache
		}
		fetcher = hf
	case FetchStub:
		sf := &stubFetcher{srcs: map[string]*stubSrc{}, lasts: map[string]*[]*CRLSpec{}}
		for _, w := range sc.Worlds {
			for _, cp := range w.Certs {
				if cp.Pos == len(w.Certs)-1 {
					continue
				}
				for _, s := range cp.CRL {
					for rep := 0; rep < w.reps(); rep++ {
						k := fmt.Sprintf("%d|%s", w.callerKeyOf(rep), s.URL)
						sf.srcs[k] = &stubSrc{w: w, cp: cp, src: s}
						sf.lasts[k] = new([]*CRLSpec)
					}
				}
			}
		}
		fetcher = sf
	}
	rf := &recFetcher{inner: fetcher, slots: slots, panicV: pv}
	if sc.PanicAt == "fetcher" || sc.PanicAt == "cache" {
		w := sc.Worlds[sc.PanicWorld]
		cp := w.Certs[sc.PanicCert]
		if len(cp.CRL) > 0 {
			if sc.PanicAt == "cache" && cache != nil {
				cache.PanicOn, cache.PanicV, cache.PanicSet = cp.CRL[0].URL, pv, sc.PanicInSet
			} else {
				rf.panicOn, rf.panicCaller = cp.CRL[0].URL, w.callerKeyOf(sc.PanicRep)
			}
		}
	}
	validators := map[purpose.Purpose]revocation.Validator{}
	for _, p := range []purpose.Purpose{purpose.CodeSigning, purpose.Timestamping} {
		v, err := revocation.NewWithOptions(revocation.Options{OCSPHTTPClient: ocspClient, CRLFetcher: rf, CertChainPurpose: p})
		if err != nil {
			obs.HarnessErr = err.Error()
			return nil
		}
		validators[p] = v
	}
	return &revInfra{nt: nt, ocspClient: ocspClient, crlClient: crlClient, rf: rf, cache: cache, validators: validators, pv: pv, ka: ka}
}

// rebuildValidators models a process restart: a new HTTPFetcher (same cache,
// same recording decorator) and new validators.
func (sc *RevScenario) rebuildValidators(inf *revInfra) map[purpose.Purpose]revocation.Validator {
	if sc.Fetcher == FetchStub {
		return nil
	}
	hf, err := corecrl.NewHTTPFetcher(inf.crlClient)
	if err != nil {
		return nil
	}
	if inf.cache != nil {
		hf.Cache = inf.cache
		hf.DiscardCacheError = sc.Discard
	}
	inf.rf.inner = hf
	out := map[purpose.Purpose]revocation.Validator{}
	for _, p := range []purpose.Purpose{purpose.CodeSigning, purpose.Timestamping} {
		v, err := revocation.NewWithOptions(revocation.Options{OCSPHTTPClient: inf.ocspClient, CRLFetcher: inf.rf, CertChainPurpose: p})
		if err != nil {
			return nil
		}
		out[p] = v
	}
	return out
}

// heal makes every source of one certificate of world 0 honest and returns a
// function that restores the drawn plan.
func (sc *RevScenario) heal(pos int) (restore func()) {
	cp := sc.Worlds[0].Certs[pos]
	type savedO struct {
		c OCSPContent
		f Fault
	}
	var so []savedO
	for _, s := range cp.OCSP {
		so = append(so, savedO{s.Content, s.Fault})
		s.Content = OCSPContent{Status: StGood, Signer: SgIssuer, RevAgo: s.Content.RevAgo, ByName: s.Content.ByName}
		s.Fault = Fault{}
	}
	var sc2 []CRLSrc
	for _, s := range cp.CRL {
		sc2 = append(sc2, *s)
		s.Base = CRLPlan{SignerKind: "issuer"}
		s.BaseFault = Fault{}
		s.DeltaFault = make([]Fault, len(s.DeltaFault))
		s.Delta = CRLPlan{SignerKind: "issuer", NumOff: 1}
		s.StubErr, s.CacheSeed, s.CacheGetEr, s.CacheSetEr = false, 0, false, false
	}
	return func() {
		for i, s := range cp.OCSP {
			s.Content, s.Fault = so[i].c, so[i].f
		}
		for i, s := range cp.CRL {
			x, xd, xb := s.XBase, s.XDelta, sc2[i]
			*s = xb
			s.XBase, s.XDelta = x, xd
		}
	}
}

func (sc *RevScenario) execInBubble(obs *RevObs, altSeed uint32, onlyWorld int, hooks *execHooks) {
	if hooks != nil && hooks.healCert >= 0 && hooks.healCert < len(sc.Worlds[0].Certs)-1 {
		defer sc.heal(hooks.healCert)()
	}
	inf := sc.setup(obs, altSeed, nil, nil)
	if inf == nil {
		return
	}
	nt, ocspClient, rf, validators, pv := inf.nt, inf.ocspClient, inf.rf, inf.validators, inf.pv
	// cancellation
	var perCaller map[int]context.CancelFunc // CancelOnXchg: one context per caller (filled before the calls start, read-only afterwards)
	baseCtx := context.Background()
	var cancel context.CancelFunc = func() {}
	switch sc.Cancel {
	case CancelBefore:
		baseCtx, cancel = context.WithCancel(baseCtx)
		cancel()
	case CancelAt:
		baseCtx, cancel = context.WithCancel(baseCtx)
		c := cancel
		time.AfterFunc(sc.CancelAfter+cancelOffset, c)
	case CancelDeadline:
		baseCtx, cancel = context.WithTimeout(baseCtx, sc.CancelAfter+cancelOffset)
	case CancelOnXchg:
		baseCtx, cancel = context.WithCancel(baseCtx)
		c := cancel
		// choose the exchange among those planned (read-only during the run)
		var cands, crls []*Exchange
		for _, x := range nt.All() {
			if x.Serve == nil {
				continue // root sources are never contacted
			}
			cands = append(cands, x)
			if x.Kind == "crl" {
				crls = append(crls, x)
			}
		}
		if sc.CancelXPreferCRL && len(crls) > 0 {
			cands = crls
		}
		if len(cands) > 0 {
			// the same logical exchange in every caller that performs it; each
			// caller has its own context, so that one caller's cancellation can
			// never tie with another caller's (identically timed) exchanges
			pick := cands[sc.CancelXSel%len(cands)]
			for _, x := range nt.All() {
				if x.Serve != nil && x.Kind == pick.Kind && x.CertPos == pick.CertPos && x.SrcIdx == pick.SrcIdx && x.URL == pick.URL && x.Attempt == pick.Attempt {
					x.CancelOnClose = true
				}
			}
		}
		perCaller = map[int]context.CancelFunc{}
		nt.OnClose = func(x *Exchange) {
			if x.CancelOnClose {
				x.Rec.CancelledHere = true
				if f := perCaller[x.Rec.CallerID]; f != nil {
					f()
				} else {
					c()
				}
			}
		}
	}
	defer cancel()
	defer func() {
		for _, f := range perCaller {
			f()
		}
	}()

	var worlds []*World
	for _, w := range sc.Worlds {
		if onlyWorld >= 0 && w.ID != onlyWorld {
			continue
		}
		worlds = append(worlds, w)
	}
	type job struct {
		w   *World
		rep int
	}
	var jobs []job
	for _, w := range worlds {
		for rep := 0; rep < w.reps(); rep++ {
			jobs = append(jobs, job{w, rep})
		}
	}
	obs.Calls = make([]*CallObs, len(jobs))
	obs.PanicToken = pv
	obs.T0 = time.Now()
	callCtx := map[int]context.Context{}
	for _, j := range jobs {
		ck := j.w.callerKeyOf(j.rep)
		if perCaller != nil && j.w.Entry == EValidateContext {
			cctx, ccancel := context.WithCancel(baseCtx)
			perCaller[ck] = ccancel
			callCtx[ck] = cctx
		} else if _, ok := callCtx[ck]; !ok {
			callCtx[ck] = baseCtx
			if !sc.cancelApplies(j.w, j.rep) {
				callCtx[ck] = context.Background()
			}
		}
	}
	done := make(chan struct{}, len(jobs))
	for i, j := range jobs {
		w, rep := j.w, j.rep
		co := &CallObs{World: w, Rep: rep}
		obs.Calls[i] = co
		call := func() {
			defer func() {
				if r := recover(); r != nil {
					co.Panicked, co.PanicVal = true, r
					co.TReturn, co.Returned = time.Now(), true
				}
			}()
			chain := w.chain()
			co.TStart = time.Now()
			switch w.Entry {
			case EValidateContext:
				ctx := WithCaller(callCtx[w.callerKeyOf(rep)], w.callerKeyOf(rep))
				hasST, stv := w.repST(rep)
				var sta time.Time
				if hasST {
					sta = stv
				}
				co.Results, co.Err = validators[w.purposeForCall()].ValidateContext(ctx, revocation.ValidateContextOptions{CertChain: chain, AuthenticSigningTime: sta})
			case EValidate:
				r, err := revocation.New(ocspClient)
				if err != nil {
					co.Err = err
					break
				}
				co.Results, co.Err = r.Validate(chain, w.stArg())
			case ECheckStatus:
				co.Results, co.Err = coreocsp.CheckStatus(coreocsp.Options{CertChain: chain, CertChainPurpose: w.purposeForCall(), SigningTime: w.stArg(), HTTPClient: ocspClient})
			}
			co.TReturn, co.Returned = time.Now(), true
			// the results as they are at the return instant: a goroutine the
			// call left behind must not be able to complete them afterwards
			if co.Results != nil {
				orig := co.Results
				co.Results = deepCopyResults(orig)
				// the results belong to the caller now, who may do with them
				// what it likes: later answers of the library (to this caller
				// or another) must not depend on these objects
				scribbleResults(orig)
			}
		}
		switch {
		case sc.Sequential:
			if i < len(sc.Gaps) && sc.Gaps[i] > 0 {
				time.Sleep(sc.Gaps[i])
			}
			if i < len(sc.Restarts) && sc.Restarts[i] {
				// process restart: new fetcher and validators, the cache survives
				if nv := sc.rebuildValidators(inf); nv != nil {
					validators = nv
				}
			}
			if inf.cache != nil {
				for _, cp := range w.Certs {
					for _, s := range cp.CRL {
						var gp, sp []int
						if s.CacheGetEr {
							gp = []int{1}
						}
						if s.CacheSetEr {
							sp = []int{1}
						}
						inf.cache.Plan(s.URL, gp, sp)
					}
				}
			}
			call()
		case len(jobs) == 1:
			if d := sc.staggerOf(w, rep); d > 0 {
				time.Sleep(d)
			}
			call()
		default:
			d := sc.staggerOf(w, rep)
			go func() {
				if d > 0 {
					time.Sleep(d)
				}
				call()
				done <- struct{}{}
			}()
		}
	}
	if len(jobs) > 1 && !sc.Sequential {
		for range jobs {
			<-done
		}
	}
	// leak detection: at the return instant nothing may be in flight
	tret := time.Now()
	for _, x := range nt.All() {
		if x.Rec.Begun && !x.Rec.Returned {
			obs.InFlight = append(obs.InFlight, x.Key)
		}
	}
	if inf.cache != nil {
		for _, op := range inf.cache.AllOps() {
			if !op.Done {
				obs.InFlight = append(obs.InFlight, "cache."+op.Op)
			}
		}
	}
	// a response body the library was handed but never closed keeps the
	// client's timer goroutine (and, on a real transport, the connection) alive
	for _, x := range nt.All() {
		if x.Rec.Outcome == "response" && x.Rec.Returned && !x.Rec.Closed && !(x.Fault.Kind == FRedirect && !x.Rec.Redirected) {
			obs.InFlight = append(obs.InFlight, "unclosed_body:"+x.Key)
		}
	}
	// let any leaked goroutine make progress: if something completes after the
	// return instant it is a late event
	synctest.Wait()
	time.Sleep(2 * maxStall)
	synctest.Wait()
	for _, x := range nt.All() {
		if x.Rec.Returned && x.Rec.TReturn.After(tret) {
			obs.LateEvents = append(obs.LateEvents, x.Key)
		}
		if x.Rec.Begun && x.Rec.TBegin.After(tret) {
			obs.LateEvents = append(obs.LateEvents, "begin:"+x.Key)
		}
	}
	if inf.cache != nil {
		for _, op := range inf.cache.AllOps() {
			if op.T.After(tret) || (op.Done && op.TEnd.After(tret)) {
				obs.LateEvents = append(obs.LateEvents, "cache."+op.Op)
			}
		}
	}
	obs.Fetches = rf.all()
	obs.TEnd = tret
}

// callerKey is the caller id under which this world's exchanges are planned:
// entry points that take no context cannot carry one.
func (w *World) callerKeyOf(rep int) int {
	if w.Entry == EValidateContext {
		return w.ID*64 + rep + 1 // 0 is reserved for the entry points that carry no context
	}
	return 0
}

// reps is the number of concurrent callers validating this same world.
func (w *World) reps() int {
	if w.Reps < 1 || w.Entry != EValidateContext {
		return 1
	}
	return w.Reps
}

func (w *World) C0() *Cert {
	if len(w.Certs) == 0 {
		return nil
	}
	return w.Certs[0].C
}

// repST is the signing time the rep-th concurrent caller of this world
// supplies: callers of the same chain may well differ in it.
func (w *World) repST(rep int) (bool, time.Time) {
	kind := 0
	if rep < len(w.RepST) {
		kind = w.RepST[rep]
	}
	base := stBase
	if w.HasST {
		base = w.ST
	}
	switch kind {
	case 1:
		return false, time.Time{}
	case 2:
		return true, base.Add(-time.Hour)
	case 3:
		return true, base.Add(time.Hour)
	case 4:
		return true, base
	}
	return w.HasST, w.ST
}

func (w *World) stArg() time.Time {
	if w.HasST {
		return w.ST
	}
	return time.Time{}
}

func deepCopyResults(rs []*result.CertRevocationResult) []*result.CertRevocationResult {
	out := make([]*result.CertRevocationResult, len(rs))
	for i, r := range rs {
		if r == nil {
			continue
		}
		c := *r
		if r.ServerResults != nil {
			c.ServerResults = make([]*result.ServerResult, len(r.ServerResults))
			for j, sr := range r.ServerResults {
				if sr != nil {
					cs := *sr
					c.ServerResults[j] = &cs
				}
			}
		}
		out[i] = &c
	}
	return out
}

// scribbleResults is a caller that annotates and reuses the result objects it
// was handed.
func scribbleResults(rs []*result.CertRevocationResult) {
	for _, r := range rs {
		if r == nil {
			continue
		}
		for _, sr := range r.ServerResults {
			if sr != nil {
				sr.Server, sr.Result, sr.RevocationMethod = "http://annotated.by.caller/", result.ResultRevoked, result.RevocationMethodCRL
			}
		}
		r.Result, r.RevocationMethod = result.ResultRevoked, result.RevocationMethodOCSPFallbackCRL
		r.ServerResults = append(r.ServerResults, &result.ServerResult{Server: "http://appended.by.caller/", Result: result.ResultOK, RevocationMethod: result.RevocationMethodOCSP})
	}
}
